// autoSql schema parser (bed::autosql::parse): the FUNCTIONAL result of the grammar-level functions, at token level.
// Property clauses (C19): "... the schema it generates from the first BED line declares exactly three plus the number of
// extra columns fields and the bigBed header's field count equals that; a schema supplied to the tool or the library is
// stored ... with its declared field count (the library's default is the three-field BED schema). The schema parser ...
// parses every schema the generator emits."  The header's field count is obtained by PARSING the text (unit write_pre takes
// it from the last declaration `parse_autosql` returns), so the clauses need
//      parse_autosql(text generated for n extra columns) == Ok([one declaration with exactly 3 + n fields])
// and, for a supplied schema, "number of parsed fields == number of declared fields".
// Unit asql_loops proves that parsing terminates, stays in bounds and never panics -- not what it returns.  This unit cuts
// the same functions and proves, over a token model of the tokenizer (assumption A1', NOTES.md), for the autoSql grammar
//      declaration := ("table"|"simple"|"object") name COMMENT "(" field+ ")"
//      field       := type ["[" SIZE "]"] NAME tail ";" COMMENT
//      type        := keyword type | ("enum"|"set") "(" VALUE {"," VALUE} ")" | ("simple"|"object") name
//      name        := NAME tail          tail := ["primary" | "unique" | "index" ["[" SIZE "]"]] ["auto"]
//   (a) parse_field_list on `field_1 .. field_m )` returns Ok(fields), fields.len() == m, field i having the type, size,
//       name, index clause, auto flag and comment of field_i, and stops in front of the `)`;
//   (b) parse_declaration on a declaration returns Ok(Some(that declaration)) and stops behind its `)`; at the end of the
//       lexemes it returns Ok(None);
//   (c) parse_autosql on a text that is ONE declaration returns Ok(vec![that declaration]); in particular on a text whose
//       lexemes are `gen_stream(n)` -- what bed_autosql emits for n extra columns -- it returns Ok(vec![d]) with
//       d.fields.len() == 3 + n, field j having the generated type, size, name and comment.
// The totality contracts of asql_loops (termination with measure len - pos, cursor monotone, results bounded by the input)
// are kept on every function: they carry the `decreases` clauses and hold for EVERY input.
// NOT under the functional contract (totality only): the `"table"` arm of FieldType::try_parse, the `_ => Ok(None)` arm,
// the leniencies of the code outside the grammar (missing comment, `enum()` / trailing comma, values separated by anything),
// every error return, and parse_declaration_list beyond "one declaration, then the end".
use vstd::prelude::*;
verus! {

/// R6 target: panic!/unreachable!/unimplemented!/todo! become a call that must be proved unreachable.
/// (No such macro occurs in the extracted functions today: R6 reports 0 hits.)
#[verifier::external_body]
pub fn vpanic() -> !
    requires false
{ panic!() }

// ---------------------------------------------------------------------------------------------
// Tok: stand-in for ONE `&'a str` slice handed out by the tokenizer -- an OCCURRENCE in the text (`id`), so two `uint`
// at different places are different Toks.  String *content* is outside Verus; the facts kept are "is it empty",
// "which literal of the grammar is it", "does it start with a double quote" and its characters (for the name rule).
// ---------------------------------------------------------------------------------------------
#[allow(non_camel_case_types)]
#[derive(Clone, Copy, PartialEq, Eq)]
pub enum Lit {
    Empty, LParen, RParen, LBracket, RBracket, Semi, Comma,
    W_primary, W_index, W_unique, W_auto,
    W_int, W_uint, W_short, W_ushort, W_byte, W_ubyte, W_float, W_double, W_char, W_string,
    W_lstring, W_bigint, W_enum, W_set, W_simple, W_object, W_table,
    Other,
}

#[derive(Clone, Copy)]
pub struct Tok { pub id: usize }

impl Tok {
    /// text == ""
    pub uninterp spec fn empty(&self) -> bool;
    /// the literal of the grammar the text is equal to (Other if none)
    pub uninterp spec fn lit(&self) -> Lit;
    /// str::to_lowercase
    pub uninterp spec fn lower(&self) -> Tok;
    /// the first character is a double quote
    pub uninterp spec fn quoted(&self) -> bool;
    /// one of the six delimiter characters
    pub open spec fn punct(&self) -> bool {
        self.lit() == Lit::LParen || self.lit() == Lit::RParen || self.lit() == Lit::LBracket
            || self.lit() == Lit::RBracket || self.lit() == Lit::Semi || self.lit() == Lit::Comma
    }
    /// a maximal run of characters that are neither white space nor delimiters, not starting with a quote
    pub open spec fn word(&self) -> bool { !self.empty() && !self.quoted() && !self.punct() }

    /// `s.is_empty()`
    #[verifier::external_body]
    fn is_empty(&self) -> (b: bool)
        ensures b == self.empty(),
    { unimplemented!() }
    /// `s == "<literal>"`; the literal "" is the only empty one
    #[verifier::external_body]
    fn eq_lit(&self, l: Lit) -> (b: bool)
        ensures b == (self.lit() == l), (self.lit() == Lit::Empty) == self.empty(),
    { unimplemented!() }
    /// comparison with a string literal the grammar units do not name: unknown result (so that an edit that
    /// introduces one is judged by the contracts instead of being rejected by the front end)
    #[verifier::external_body]
    fn eq_other(&self) -> (b: bool) { unimplemented!() }
    /// `s != "<some other literal>"`: unknown result
    #[verifier::external_body]
    fn ne_other(&self) -> (b: bool) { unimplemented!() }
    /// `s != "<literal>"`
    #[verifier::external_body]
    fn ne_lit(&self, l: Lit) -> (b: bool)
        ensures b == (self.lit() != l), (self.lit() == Lit::Empty) == self.empty(),
    { unimplemented!() }
    /// scrutinee of `match s { "<literal>" => .., _ => .. }`
    #[verifier::external_body]
    fn kind(&self) -> (k: Lit)
        ensures k == self.lit(), (k == Lit::Empty) == self.empty(),
    { unimplemented!() }
    /// `s.to_string()`: the owned copy is the same text
    #[verifier::external_body]
    fn to_string(&self) -> (r: Tok)
        ensures r == *self,
    { unimplemented!() }
    /// `s.to_lowercase()`: "" is the only string whose lower-casing is ""; every literal of the grammar (lower-case ASCII
    /// keywords, delimiters, "") is its own lower-casing
    #[verifier::external_body]
    fn to_lowercase(&self) -> (r: Tok)
        ensures r == self.lower(), r.empty() == self.empty(),
            self.lit() != Lit::Other ==> r.lit() == self.lit(),
    { unimplemented!() }
    /// `s.as_bytes()[i]` (not used by the code today; present so that an edit validating names byte-wise is judged):
    /// indexing PANICS past the end -- in particular `[0]` on the empty token the parser returns at end of input
    #[verifier::external_body]
    fn byte_at(&self, i: usize) -> (r: u8)
        requires !self.empty(), i == 0,
    { unimplemented!() }
    /// `s.bytes().any(..)` / `s.bytes().all(..)` with some predicate: nothing known about the answer
    #[verifier::external_body]
    fn any_char_unknown(&self) -> (b: bool) { unimplemented!() }
    /// the characters of the text, in order (`s.chars()`)
    pub uninterp spec fn text(&self) -> Seq<char>;
    /// `s.chars().collect::<Vec<char>>()`: the characters; "" is the text without characters
    #[verifier::external_body]
    fn char_vec(&self) -> (v: Vec<char>)
        ensures v@ == self.text(), self.empty() == (self.text().len() == 0),
    { unimplemented!() }
}

// ---------------------------------------------------------------------------------------------
// `s.chars()` idioms (real contracts, VERIFIED over `char_vec`) and the `char` classification methods
// (uninterpreted predicates + the facts of Unicode that matter here, see `char_facts`).  As in asql_loops.
// ---------------------------------------------------------------------------------------------
/// `s.chars().next()`: the first character, None for ""
fn chars_first(t: &Tok) -> (r: Option<char>)
    ensures
        t.empty() == (t.text().len() == 0),
        t.text().len() == 0 ==> r is None,
        t.text().len() > 0 ==> r == Some(t.text()[0]),
{
    let v = t.char_vec();
    if v.len() > 0 { Some(v[0]) } else { None }
}
/// `s.chars().any(f)`: true iff f answers true for some character
fn chars_any<F: Fn(char) -> bool>(t: &Tok, f: F) -> (r: bool)
    requires forall|c: char| f.requires((c,)),
    ensures
        t.empty() == (t.text().len() == 0),
        r ==> exists|i: int| 0 <= i < t.text().len() && f.ensures((#[trigger] t.text()[i],), true),
        !r ==> forall|i: int| 0 <= i < t.text().len() ==> f.ensures((#[trigger] t.text()[i],), false),
{
    let v = t.char_vec();
    let mut k: usize = 0;
    while k < v.len()
        invariant k <= v.len(), v@ == t.text(), t.empty() == (t.text().len() == 0),
            forall|i: int| 0 <= i < k ==> f.ensures((#[trigger] t.text()[i],), false),
            forall|c: char| f.requires((c,)),
        decreases v.len() - k,
    {
        if f(v[k]) { return true; }
        k = k + 1;
    }
    false
}
/// `s.chars().all(f)`: true iff f answers true for every character (true for "")
fn chars_all<F: Fn(char) -> bool>(t: &Tok, f: F) -> (r: bool)
    requires forall|c: char| f.requires((c,)),
    ensures
        t.empty() == (t.text().len() == 0),
        r ==> forall|i: int| 0 <= i < t.text().len() ==> f.ensures((#[trigger] t.text()[i],), true),
        !r ==> exists|i: int| 0 <= i < t.text().len() && f.ensures((#[trigger] t.text()[i],), false),
{
    let v = t.char_vec();
    let mut k: usize = 0;
    while k < v.len()
        invariant k <= v.len(), v@ == t.text(), t.empty() == (t.text().len() == 0),
            forall|i: int| 0 <= i < k ==> f.ensures((#[trigger] t.text()[i],), true),
            forall|c: char| f.requires((c,)),
        decreases v.len() - k,
    {
        if !f(v[k]) { return false; }
        k = k + 1;
    }
    true
}
/// Unicode `Alphabetic` / numeric (Nd, Nl, No) properties: uninterpreted
pub uninterp spec fn is_alpha(c: char) -> bool;
pub uninterp spec fn is_numeric(c: char) -> bool;
pub open spec fn is_alnum(c: char) -> bool { is_alpha(c) || is_numeric(c) }
pub open spec fn ascii_letter(c: char) -> bool { ('a' <= c && c <= 'z') || ('A' <= c && c <= 'Z') }
pub open spec fn ascii_digit(c: char) -> bool { '0' <= c && c <= '9' }
pub open spec fn ascii_letter_r(c: &char) -> bool { ascii_letter(*c) }
pub open spec fn ascii_digit_r(c: &char) -> bool { ascii_digit(*c) }
pub open spec fn ascii_alnum_r(c: &char) -> bool { ascii_letter(*c) || ascii_digit(*c) }
#[verifier::when_used_as_spec(is_alpha)]
pub assume_specification [char::is_alphabetic] (c: char) -> (b: bool) ensures b == is_alpha(c);
#[verifier::when_used_as_spec(is_numeric)]
pub assume_specification [char::is_numeric] (c: char) -> (b: bool) ensures b == is_numeric(c);
/// std: `self.is_alphabetic() || self.is_numeric()`
#[verifier::when_used_as_spec(is_alnum)]
pub assume_specification [char::is_alphanumeric] (c: char) -> (b: bool) ensures b == is_alnum(c);
#[verifier::when_used_as_spec(ascii_digit_r)]
pub assume_specification [char::is_ascii_digit] (c: &char) -> (b: bool) ensures b == ascii_digit(*c);
#[verifier::when_used_as_spec(ascii_letter_r)]
pub assume_specification [char::is_ascii_alphabetic] (c: &char) -> (b: bool) ensures b == ascii_letter(*c);
#[verifier::when_used_as_spec(ascii_alnum_r)]
pub assume_specification [char::is_ascii_alphanumeric] (c: &char) -> (b: bool) ensures b == (ascii_letter(*c) || ascii_digit(*c));
/// the facts about the uninterpreted classes that matter (all true of Unicode): an ASCII letter is alphabetic (hence
/// alphanumeric) and not numeric; an ASCII digit is numeric (hence alphanumeric) and NOT alphabetic; the blank and the
/// underscore are neither
pub open spec fn char_facts() -> bool {
    &&& forall|c: char| ascii_letter(c) ==> #[trigger] is_alpha(c)
    &&& forall|c: char| ascii_letter(c) ==> !#[trigger] is_numeric(c)
    &&& forall|c: char| ascii_digit(c) ==> #[trigger] is_numeric(c)
    &&& forall|c: char| ascii_digit(c) ==> !#[trigger] is_alpha(c)
    &&& !is_alpha(' ') && !is_numeric(' ') && !is_alpha('_') && !is_numeric('_')
}
#[verifier::external_body]
pub proof fn char_class_facts() ensures char_facts() { }

/// the names the schema generator emits (unit asql_gen `extra_columns_named_standard_then_numbered`: `table bed`, the
/// standard BED names `name`, `thickStart`, .. then `field16`, `field17`, ..): an ASCII letter, then ASCII letters and digits
pub open spec fn generator_style_name(s: Seq<char>) -> bool {
    &&& s.len() > 0 && ascii_letter(s[0])
    &&& forall|i: int| 0 <= i < s.len() ==> ascii_letter(#[trigger] s[i]) || ascii_digit(s[i])
}

// ---------------------------------------------------------------------------------------------
// VParser: stand-in for parse::parser::Parser<'a> {data, start_cursor, end_cursor}.
//
// BYTE MODEL (assumption A1, as in asql_loops; checked within a bound by Kani unit asql_tok):
//   pos() = start_cursor, end() = end_cursor, len() = data.len(); wf: 0 <= pos <= end <= len.  It carries termination.
//
// TOKEN MODEL (assumption A1', argued from the real tokenizer in NOTES.md, cross-checked by tokmodel_check.py):
//   toks()    = lex(data): the lexemes of the WHOLE text, in order, where lex repeats { skip white space; stop at the end;
//               c = next character; c == '"': the lexeme runs up to and including the next '"' (or to the end of the text);
//               c one of `;()[],`: the lexeme is that character; otherwise: the maximal run of characters that are
//               neither white space nor one of `;()[],` }.  Never changes.
//   at()      = number of lexemes that end at or before start_cursor
//   aligned() = start_cursor is not strictly inside a lexeme (it is at the start of lexeme number at(), or in the white
//               space in front of it, or -- at() == toks().len() -- in the trailing white space)
//   peeked()  = start_cursor is at the first byte of lexeme number at() and end_cursor right behind its last byte
//               (`take()` then hands out exactly that lexeme)
// The contracts say WHICH lexeme a call returns/consumes only where the call kind fits the lexeme:
//   peek_word/eat_word  at a word           -> that lexeme
//   peek_word           at a delimiter      -> that lexeme, or (when the next character is glued to it: `[12`, `;"x"`) a
//                                              longer text that starts with the delimiter and is no literal of the grammar
//   peek_word           at a quoted string  -> some non-empty text that is no literal of the grammar (it starts with '"')
//   peek_one/eat_one    at a delimiter      -> that lexeme;   at a word / quoted string -> its first character, which
//                                              is no literal of the grammar (eat_one: the cursor is then unknown)
//   peek/eat_quoted_string at a quoted string -> that lexeme;  elsewhere (also at the end) -> "" and nothing moves
//   every call at the end of the lexemes    -> "" and nothing moves
// Everything else (eat_word at a delimiter or a quoted string, take() after a partial peek, any call while not
// aligned) is left unspecified: an edit that gets there cannot establish the functional postconditions.
// ---------------------------------------------------------------------------------------------
pub uninterp spec fn str_len(s: &str) -> int;
/// the lexemes of a text (see above)
pub uninterp spec fn lex(s: &str) -> Seq<Tok>;

#[verifier::external_body]
pub struct VParser { _p: u8 }

impl VParser {
    pub uninterp spec fn pos(&self) -> int;
    pub uninterp spec fn end(&self) -> int;
    pub uninterp spec fn len(&self) -> int;
    pub open spec fn wf(&self) -> bool { 0 <= self.pos() <= self.end() <= self.len() }

    pub uninterp spec fn toks(&self) -> Seq<Tok>;
    pub uninterp spec fn at(&self) -> int;
    pub uninterp spec fn aligned(&self) -> bool;
    pub uninterp spec fn peeked(&self) -> bool;
    /// on a lexeme boundary
    pub open spec fn ready(&self) -> bool { self.aligned() && 0 <= self.at() <= self.toks().len() }
    /// on a lexeme boundary with a lexeme ahead
    pub open spec fn more(&self) -> bool { self.ready() && self.at() < self.toks().len() }
    /// on a lexeme boundary with nothing but white space ahead
    pub open spec fn done(&self) -> bool { self.ready() && self.at() == self.toks().len() }
    /// the lexeme ahead
    pub open spec fn head(&self) -> Tok { self.toks()[self.at()] }
    /// same text, same place
    pub open spec fn stays(&self, o: &VParser) -> bool {
        self.toks() == o.toks() && self.at() == o.at() && self.aligned() == o.aligned()
    }
    /// same text, one lexeme further, on a boundary
    pub open spec fn stepped(&self, o: &VParser) -> bool {
        self.toks() == o.toks() && self.at() == o.at() + 1 && self.aligned()
    }

    #[verifier::external_body]
    fn of(data: &str) -> (p: VParser)
        ensures p.wf(), p.pos() == 0, p.len() == str_len(data), str_len(data) >= 0,
            p.toks() == lex(data), p.at() == 0, p.aligned(),
    { unimplemented!() }

    #[verifier::external_body]
    fn take(&mut self) -> (t: Tok)
        requires old(self).wf(),
        ensures final(self).wf(), final(self).len() == old(self).len(),
            final(self).pos() == old(self).end(), final(self).end() == old(self).end(),
            t.empty() == (old(self).pos() == old(self).end()),
            final(self).toks() == old(self).toks(), !final(self).peeked(),
            old(self).more() && old(self).peeked() ==> t == old(self).head() && !t.empty() && final(self).stepped(old(self)),
            old(self).pos() == old(self).end() ==> final(self).stays(old(self)),
    { unimplemented!() }

    #[verifier::external_body]
    fn peek_word(&mut self) -> (t: Tok)
        requires old(self).wf(),
        ensures final(self).wf(), final(self).len() == old(self).len(),
            final(self).pos() >= old(self).pos(),
            t.empty() == (final(self).end() == final(self).pos()),
            t.empty() ==> final(self).pos() == final(self).len(),
            final(self).toks() == old(self).toks(), old(self).ready() ==> final(self).stays(old(self)),
            old(self).more() && old(self).head().word() ==> t == old(self).head() && !t.empty() && final(self).peeked(),
            old(self).more() && old(self).head().punct() ==> !t.empty() && (t == old(self).head() || t.lit() == Lit::Other),
            old(self).more() && old(self).head().quoted() ==> t.lit() == Lit::Other && !t.empty(),
            old(self).done() ==> t.empty(),
    { unimplemented!() }

    #[verifier::external_body]
    fn eat_word(&mut self) -> (t: Tok)
        requires old(self).wf(),
        ensures final(self).wf(), final(self).len() == old(self).len(),
            final(self).pos() >= old(self).pos(), final(self).end() == final(self).pos(),
            !t.empty() ==> final(self).pos() > old(self).pos(),
            t.empty() ==> final(self).pos() == final(self).len(),
            final(self).toks() == old(self).toks(), !final(self).peeked(),
            old(self).more() && old(self).head().word() ==> t == old(self).head() && !t.empty() && final(self).stepped(old(self)),
            old(self).done() ==> t.empty() && final(self).stays(old(self)),
    { unimplemented!() }

    #[verifier::external_body]
    fn peek_one(&mut self) -> (t: Tok)
        requires old(self).wf(),
        ensures final(self).wf(), final(self).len() == old(self).len(),
            final(self).pos() >= old(self).pos(),
            t.empty() == (final(self).end() == final(self).pos()),
            t.empty() ==> final(self).pos() == final(self).len(),
            final(self).toks() == old(self).toks(), old(self).ready() ==> final(self).stays(old(self)),
            old(self).more() && old(self).head().punct() ==> t == old(self).head() && !t.empty() && final(self).peeked(),
            old(self).more() && !old(self).head().punct() ==> t.lit() == Lit::Other && !t.empty(),
            old(self).done() ==> t.empty(),
    { unimplemented!() }

    #[verifier::external_body]
    fn eat_one(&mut self) -> (t: Tok)
        requires old(self).wf(),
        ensures final(self).wf(), final(self).len() == old(self).len(),
            final(self).pos() >= old(self).pos(), final(self).end() == final(self).pos(),
            !t.empty() ==> final(self).pos() > old(self).pos(),
            t.empty() ==> final(self).pos() == final(self).len(),
            final(self).toks() == old(self).toks(), !final(self).peeked(),
            old(self).more() && old(self).head().punct() ==> t == old(self).head() && !t.empty() && final(self).stepped(old(self)),
            old(self).more() && !old(self).head().punct() ==> t.lit() == Lit::Other && !t.empty(),
            old(self).done() ==> t.empty() && final(self).stays(old(self)),
    { unimplemented!() }

    #[verifier::external_body]
    fn peek_quoted_string(&mut self) -> (t: Tok)
        requires old(self).wf(),
        ensures final(self).wf(), final(self).len() == old(self).len(),
            final(self).pos() >= old(self).pos(),
            t.empty() == (final(self).end() == final(self).pos()),
            final(self).toks() == old(self).toks(), old(self).ready() ==> final(self).stays(old(self)),
            old(self).more() && old(self).head().quoted() ==> t == old(self).head() && !t.empty() && final(self).peeked(),
            old(self).ready() && !(old(self).more() && old(self).head().quoted()) ==> t.empty(),
    { unimplemented!() }

    #[verifier::external_body]
    fn eat_quoted_string(&mut self) -> (t: Tok)
        requires old(self).wf(),
        ensures final(self).wf(), final(self).len() == old(self).len(),
            final(self).pos() >= old(self).pos(), final(self).end() == final(self).pos(),
            !t.empty() ==> final(self).pos() > old(self).pos(),
            final(self).toks() == old(self).toks(), !final(self).peeked(),
            old(self).more() && old(self).head().quoted() ==> t == old(self).head() && !t.empty() && final(self).stepped(old(self)),
            old(self).ready() && !(old(self).more() && old(self).head().quoted()) ==> t.empty() && final(self).stays(old(self)),
    { unimplemented!() }
}

// ---------------------------------------------------------------------------------------------
// Data types of bed::autosql::parse (extracted; String -> Tok; Debug derives dropped by R8).
// ---------------------------------------------------------------------------------------------
    pub enum ParseError {
        InvalidDeclareType(Tok),
        InvalidDeclareName(Tok),
        InvalidDeclareBrackets(Tok),
        InvalidFieldSizeClose(Tok),
        InvalidFieldCommentSeparater(Tok),
        InvalidFieldValuesBrackets(Tok),
        InvalidIndexSizeBrackets(Tok),
    }
    #[derive(Copy, Clone)]
    pub enum DeclarationType {
        Simple,
        Object,
        Table,
    }
    pub enum IndexType {
        Primary,
        Index(Option<Tok>),
        Unique,
    }
    pub struct DeclareName {
        pub name: Tok,
        pub index_type: Option<IndexType>,
        pub auto: bool,
    }
    pub struct Declaration {
        pub declaration_type: DeclarationType,
        pub name: DeclareName,
        pub comment: Tok,
        pub fields: Vec<Field>,
    }
    pub enum FieldType {
        Int,
        Uint,
        Short,
        Ushort,
        Byte,
        Ubyte,
        Float,
        Double,
        Char,
        String,
        Lstring,
        Bigint,
        Enum(Vec<Tok>),
        Set(Vec<Tok>),
        Declaration(DeclarationType, DeclareName),
    }
    pub struct Field {
        pub field_type: FieldType,
        pub field_size: Option<Tok>,
        pub name: Tok,
        pub index_type: Option<IndexType>,
        pub auto: bool,
        pub comment: Tok,
    }

// `#[derive(Clone)]` of the repository's types (the derive attribute itself is dropped above: Verus does not take it on
// non-Copy types).  REAL contract of a derived clone of String/Vec/Option/bool fields: an equal value.
impl Clone for IndexType { #[verifier::external_body] fn clone(&self) -> (r: Self) ensures r == *self { unimplemented!() } }
impl Clone for DeclareName { #[verifier::external_body] fn clone(&self) -> (r: Self) ensures r == *self { unimplemented!() } }
impl Clone for Declaration { #[verifier::external_body] fn clone(&self) -> (r: Self) ensures r == *self { unimplemented!() } }
impl Clone for FieldType { #[verifier::external_body] fn clone(&self) -> (r: Self) ensures r == *self { unimplemented!() } }
impl Clone for Field { #[verifier::external_body] fn clone(&self) -> (r: Self) ensures r == *self { unimplemented!() } }

/// number of symbolic values of an enum/set field type (0 for the others)
pub open spec fn n_values(ft: FieldType) -> int {
    match ft {
        FieldType::Enum(v) => v@.len() as int,
        FieldType::Set(v) => v@.len() as int,
        _ => 0,
    }
}

/// `u8::is_ascii_alphabetic` and friends: nothing known about the answer
#[verifier::external_body]
fn u8_class(b: u8) -> (r: bool) { unimplemented!() }

// ---------------------------------------------------------------------------------------------
// GRAMMAR VOCABULARY over a lexeme sequence ts (written from the autoSql grammar, kent autoSql.doc):
//   declaration := ("table"|"simple"|"object") name COMMENT "(" field+ ")"
//   field       := type ["[" SIZE "]"] NAME tail ";" COMMENT
//   type        := one of the twelve keyword types | ("enum"|"set") "(" VALUE {"," VALUE} ")" | ("simple"|"object") name
//   name        := NAME tail            tail := ["primary" | "unique" | "index" ["[" SIZE "]"]] ["auto"]
// NAME, SIZE, VALUE are words; a declaration's NAME (and the NAME of a nested `simple`/`object` type) has to pass the
// parser's identifier rule and is taken in the generator's style (a letter, then letters and digits).
// Every function below is a function of the lexemes alone: WHERE the parts of a field stand is computed from ts.
// ---------------------------------------------------------------------------------------------
pub open spec fn b2i(b: bool) -> int { if b { 1 } else { 0 } }
/// the twelve keyword types without arguments
pub open spec fn is_simple_type(l: Lit) -> bool {
    l == Lit::W_int || l == Lit::W_uint || l == Lit::W_short || l == Lit::W_ushort || l == Lit::W_byte || l == Lit::W_ubyte
        || l == Lit::W_float || l == Lit::W_double || l == Lit::W_char || l == Lit::W_string || l == Lit::W_lstring
        || l == Lit::W_bigint
}
pub open spec fn is_list_type(l: Lit) -> bool { l == Lit::W_enum || l == Lit::W_set }
/// `simple NAME` / `object NAME` as the type of a field (`table NAME` in that place is left out of the contract: the
/// code reads it as an `object`, the grammar document does not have it)
pub open spec fn is_nested_type(l: Lit) -> bool { l == Lit::W_simple || l == Lit::W_object }
/// the keyword a parsed field type stands for
pub open spec fn ft_lit(ft: FieldType) -> Lit {
    match ft {
        FieldType::Int => Lit::W_int, FieldType::Uint => Lit::W_uint, FieldType::Short => Lit::W_short,
        FieldType::Ushort => Lit::W_ushort, FieldType::Byte => Lit::W_byte, FieldType::Ubyte => Lit::W_ubyte,
        FieldType::Float => Lit::W_float, FieldType::Double => Lit::W_double, FieldType::Char => Lit::W_char,
        FieldType::String => Lit::W_string, FieldType::Lstring => Lit::W_lstring, FieldType::Bigint => Lit::W_bigint,
        FieldType::Enum(_) => Lit::W_enum, FieldType::Set(_) => Lit::W_set,
        FieldType::Declaration(_, _) => Lit::Other,
    }
}
pub open spec fn is_decl_type(l: Lit) -> bool { l == Lit::W_simple || l == Lit::W_object || l == Lit::W_table }
pub open spec fn dt_lit(dt: DeclarationType) -> Lit {
    match dt { DeclarationType::Simple => Lit::W_simple, DeclarationType::Object => Lit::W_object, DeclarationType::Table => Lit::W_table }
}
/// at q stands a lexeme of one of the three kinds, or the text ends there
pub open spec fn known(ts: Seq<Tok>, q: int) -> bool {
    q == ts.len() || (0 <= q < ts.len() && (ts[q].word() || ts[q].punct() || ts[q].quoted()))
}

// ---- tail := ["primary" | "unique" | "index" ["[" SIZE "]"]] ["auto"] -------------------------------------------
pub open spec fn is_idx_word(ts: Seq<Tok>, q: int) -> bool {
    0 <= q < ts.len() && ts[q].word() && (ts[q].lit() == Lit::W_primary || ts[q].lit() == Lit::W_unique || ts[q].lit() == Lit::W_index)
}
/// `index [`
pub open spec fn idx_bracket(ts: Seq<Tok>, q: int) -> bool {
    is_idx_word(ts, q) && ts[q].lit() == Lit::W_index && q + 1 < ts.len() && ts[q + 1].lit() == Lit::LBracket
}
/// (opaque: revealed where the index clause itself is parsed; everywhere else it is just a number of lexemes)
#[verifier::opaque]
pub open spec fn idx_w(ts: Seq<Tok>, q: int) -> int { if idx_bracket(ts, q) { 4 } else if is_idx_word(ts, q) { 1 } else { 0 } }
/// an opened `index [` is `index [ SIZE ]`
pub open spec fn idx_ok(ts: Seq<Tok>, q: int) -> bool {
    idx_bracket(ts, q) ==> q + 3 < ts.len() && ts[q + 2].word() && ts[q + 3].lit() == Lit::RBracket
}
pub open spec fn idx_is(it: Option<IndexType>, ts: Seq<Tok>, q: int) -> bool {
    if !is_idx_word(ts, q) { it is None }
    else if ts[q].lit() == Lit::W_primary { it == Some(IndexType::Primary) }
    else if ts[q].lit() == Lit::W_unique { it == Some(IndexType::Unique) }
    else if idx_bracket(ts, q) { it == Some(IndexType::Index(Some(ts[q + 2]))) }
    else { it == Some(IndexType::Index(None)) }
}
pub open spec fn auto_at(ts: Seq<Tok>, q: int) -> bool { 0 <= q < ts.len() && ts[q].word() && ts[q].lit() == Lit::W_auto }
/// where `auto` may stand when the tail starts at q
pub open spec fn tail_auto(ts: Seq<Tok>, q: int) -> int { q + idx_w(ts, q) }
pub open spec fn tail_w(ts: Seq<Tok>, q: int) -> int { idx_w(ts, q) + b2i(auto_at(ts, tail_auto(ts, q))) }
/// a tail stands at q (possibly the empty one), and what it is made of is of known kind
pub open spec fn tail_ok(ts: Seq<Tok>, q: int) -> bool {
    0 <= q <= ts.len() && idx_ok(ts, q) && known(ts, q) && known(ts, tail_auto(ts, q))
}

// ---- name := NAME tail (declaration names: identifier rule) --------------------------------------------------------
pub open spec fn name_ok(ts: Seq<Tok>, p: int) -> bool {
    0 <= p < ts.len() && ts[p].word() && generator_style_name(ts[p].text()) && tail_ok(ts, p + 1)
}
pub open spec fn name_w(ts: Seq<Tok>, p: int) -> int { 1 + tail_w(ts, p + 1) }
pub open spec fn name_is(d: DeclareName, ts: Seq<Tok>, p: int) -> bool {
    d.name == ts[p] && idx_is(d.index_type, ts, p + 1) && d.auto == auto_at(ts, tail_auto(ts, p + 1))
}

// ---- type -----------------------------------------------------------------------------------------------------------
/// VALUE {"," VALUE} ")" stands at q
pub open spec fn vals_ok(ts: Seq<Tok>, q: int) -> bool
    decreases ts.len() - q,
{
    0 <= q && q + 1 < ts.len() && ts[q].word()
        && (ts[q + 1].lit() == Lit::RParen || (ts[q + 1].lit() == Lit::Comma && vals_ok(ts, q + 2)))
}
/// how many values
pub open spec fn vals_n(ts: Seq<Tok>, q: int) -> int
    decreases ts.len() - q,
{
    if !(0 <= q && q + 1 < ts.len() && ts[q].word()) { 0 }
    else if ts[q + 1].lit() == Lit::RParen { 1 }
    else if ts[q + 1].lit() == Lit::Comma { 1 + vals_n(ts, q + 2) }
    else { 0 }
}
/// v holds the values of the list at q, in order
pub open spec fn vals_are(v: Seq<Tok>, ts: Seq<Tok>, q: int) -> bool {
    v.len() == vals_n(ts, q) && forall|i: int| 0 <= i < v.len() ==> (#[trigger] v[i]) == ts[q + 2 * i]
}
/// (opaque: revealed where the type itself is parsed)
#[verifier::opaque]
pub open spec fn type_w(ts: Seq<Tok>, p: int) -> int {
    if 0 <= p < ts.len() && is_list_type(ts[p].lit()) { 2 + 2 * vals_n(ts, p + 2) }
    else if 0 <= p < ts.len() && is_nested_type(ts[p].lit()) { 1 + name_w(ts, p + 1) }
    else { 1 }
}
pub open spec fn type_ok(ts: Seq<Tok>, p: int) -> bool {
    &&& 0 <= p < ts.len() && ts[p].word()
    &&& is_simple_type(ts[p].lit())
        || (is_list_type(ts[p].lit()) && p + 1 < ts.len() && ts[p + 1].lit() == Lit::LParen && vals_ok(ts, p + 2))
        || (is_nested_type(ts[p].lit()) && name_ok(ts, p + 1))
}
pub open spec fn type_is(ft: FieldType, ts: Seq<Tok>, p: int) -> bool {
    match ft {
        FieldType::Enum(v) => ts[p].lit() == Lit::W_enum && vals_are(v@, ts, p + 2),
        FieldType::Set(v) => ts[p].lit() == Lit::W_set && vals_are(v@, ts, p + 2),
        FieldType::Declaration(dt, dn) => is_nested_type(ts[p].lit()) && dt_lit(dt) == ts[p].lit() && name_is(dn, ts, p + 1),
        _ => is_simple_type(ts[p].lit()) && ft_lit(ft) == ts[p].lit(),
    }
}

// ---- field := type ["[" SIZE "]"] NAME tail ";" COMMENT ----------------------------------------------------------
/// where the `[` of a size stands if there is one
pub open spec fn g_size(ts: Seq<Tok>, p: int) -> int { p + type_w(ts, p) }
pub open spec fn sized_at(ts: Seq<Tok>, p: int) -> bool { 0 <= g_size(ts, p) < ts.len() && ts[g_size(ts, p)].lit() == Lit::LBracket }
pub open spec fn g_name(ts: Seq<Tok>, p: int) -> int { g_size(ts, p) + (if sized_at(ts, p) { 3int } else { 0int }) }
pub open spec fn g_tail(ts: Seq<Tok>, p: int) -> int { g_name(ts, p) + 1 }
pub open spec fn g_semi(ts: Seq<Tok>, p: int) -> int { g_tail(ts, p) + tail_w(ts, g_tail(ts, p)) }
pub open spec fn grp_width(ts: Seq<Tok>, p: int) -> int { g_semi(ts, p) + 2 - p }
/// a field stands at p and at least one more lexeme follows it
pub open spec fn grp_ok(ts: Seq<Tok>, p: int) -> bool {
    &&& type_ok(ts, p) && type_w(ts, p) >= 1 && idx_w(ts, g_tail(ts, p)) >= 0
    &&& g_semi(ts, p) + 2 < ts.len()
    &&& sized_at(ts, p) ==> ts[g_size(ts, p) + 1].word() && ts[g_size(ts, p) + 2].lit() == Lit::RBracket
    &&& ts[g_name(ts, p)].word()
    &&& tail_ok(ts, g_tail(ts, p))
    &&& ts[g_semi(ts, p)].lit() == Lit::Semi
    &&& ts[g_semi(ts, p) + 1].quoted()
}
/// fields stand at p, one after the other, up to a `)`
pub open spec fn list_ok(ts: Seq<Tok>, p: int) -> bool
    decreases ts.len() - p,
{
    grp_ok(ts, p) && (ts[p + grp_width(ts, p)].lit() == Lit::RParen || list_ok(ts, p + grp_width(ts, p)))
}
/// how many
pub open spec fn count(ts: Seq<Tok>, p: int) -> int
    decreases ts.len() - p,
{
    if !grp_ok(ts, p) { 0 } else if ts[p + grp_width(ts, p)].lit() == Lit::RParen { 1 } else { 1 + count(ts, p + grp_width(ts, p)) }
}
/// where field number k (0-based) of the list at p0 starts; k == count: where the `)` stands
pub open spec fn nth_start(ts: Seq<Tok>, p0: int, k: int) -> int
    decreases k,
{
    if k <= 0 { p0 } else { nth_start(ts, p0, k - 1) + grp_width(ts, nth_start(ts, p0, k - 1)) }
}
/// the parsed field f is the one at p: its type, size, name, index, auto flag and comment
pub open spec fn field_is(f: Field, ts: Seq<Tok>, p: int) -> bool {
    &&& type_is(f.field_type, ts, p)
    &&& if sized_at(ts, p) { f.field_size == Some(ts[g_size(ts, p) + 1]) } else { f.field_size is None }
    &&& f.name == ts[g_name(ts, p)]
    &&& idx_is(f.index_type, ts, g_tail(ts, p))
    &&& f.auto == auto_at(ts, tail_auto(ts, g_tail(ts, p)))
    &&& f.comment == ts[g_semi(ts, p) + 1]
}
/// the parsed fields fs are the first fs.len() fields of the list at p0, in order
pub open spec fn fields_are(fs: Seq<Field>, ts: Seq<Tok>, p0: int) -> bool {
    forall|j: int| 0 <= j < fs.len() ==> field_is(#[trigger] fs[j], ts, nth_start(ts, p0, j))
}

/// one round of the field loop: k fields parsed, the cursor at field k (= p) of a well-formed rest; f is field k.
/// Then k + 1 fields are parsed, field k + 1 starts behind field k, and either the `)` stands there and all fields are
/// parsed, or a well-formed rest with one field less stands there.
proof fn lemma_list_step(ts: Seq<Tok>, p0: int, fs: Seq<Field>, f: Field, p: int)
    requires
        p == nth_start(ts, p0, fs.len() as int), list_ok(ts, p), fs.len() + count(ts, p) == count(ts, p0),
        fields_are(fs, ts, p0), field_is(f, ts, p),
    ensures
        
        fields_are(fs.push(f), ts, p0),
        nth_start(ts, p0, fs.len() as int + 1) == p + grp_width(ts, p),
        ts[p + grp_width(ts, p)].lit() == Lit::RParen ==> fs.len() + 1 == count(ts, p0),
        ts[p + grp_width(ts, p)].lit() != Lit::RParen ==> list_ok(ts, p + grp_width(ts, p))
            && fs.len() + 1 + count(ts, p + grp_width(ts, p)) == count(ts, p0),
{
    let fs2 = fs.push(f);
    assert forall|j: int| 0 <= j < fs2.len() implies field_is(#[trigger] fs2[j], ts, nth_start(ts, p0, j)) by {
        if j < fs.len() { assert(fs2[j] == fs[j]); } else { assert(fs2[j] == f); }
    }
}

// ---- declaration := ("table"|"simple"|"object") name COMMENT "(" field+ ")" ----------------------------------------
/// where the comment of the declaration at p stands; `(` is next, the fields start behind it
pub open spec fn d_comment(ts: Seq<Tok>, p: int) -> int { p + 1 + name_w(ts, p + 1) }
pub open spec fn d_fields(ts: Seq<Tok>, p: int) -> int { d_comment(ts, p) + 2 }
pub open spec fn decl_ok(ts: Seq<Tok>, p: int) -> bool {
    &&& 0 <= p < ts.len() && ts[p].word() && is_decl_type(ts[p].lit())
    &&& name_ok(ts, p + 1)
    &&& d_comment(ts, p) + 1 < ts.len()
    &&& ts[d_comment(ts, p)].quoted()
    &&& ts[d_comment(ts, p) + 1].lit() == Lit::LParen
    &&& list_ok(ts, d_fields(ts, p))
}
/// the lexeme behind its closing `)`
pub open spec fn decl_end(ts: Seq<Tok>, p: int) -> int { nth_start(ts, d_fields(ts, p), count(ts, d_fields(ts, p))) + 1 }
/// the parsed declaration d is the one at p
pub open spec fn decl_is(d: Declaration, ts: Seq<Tok>, p: int) -> bool {
    &&& dt_lit(d.declaration_type) == ts[p].lit()
    &&& name_is(d.name, ts, p + 1)
    &&& d.comment == ts[d_comment(ts, p)]
    &&& d.fields@.len() == count(ts, d_fields(ts, p))
    &&& fields_are(d.fields@, ts, d_fields(ts, p))
}
/// the whole text is one declaration
pub open spec fn one_decl(ts: Seq<Tok>) -> bool { decl_ok(ts, 0) && decl_end(ts, 0) == ts.len() }

// ---------------------------------------------------------------------------------------------
// THE GENERATOR'S LANGUAGE.  gen_stream(ts, n): ts is the lexeme sequence of the text `bed_autosql` emits for n extra
// columns (read off the generator's literals, autosql.rs `bed_autosql`; unit asql_gen pins the count, the order and the
// names of the field lines on the repository text; the types/sizes below are re-checked against the real generator and
// the real tokenizer by tokmodel_check.py):
//     table bed "Browser Extensible Data" (
//        string chrom ; "..."   uint chromStart ; "..."   uint chromEnd ; "..."                                  j = 0..2
//        string name ; ".."  uint score ; ".."  char [ 1 ] strand ; ".."  uint thickStart ; ".."                 j = 3..6
//        uint thickEnd ; ".."  uint reserved ; ".."  int blockCount ; ".."                                       j = 7..9
//        int [ blockCount ] blockSizes ; ".."  int [ blockCount ] chromStarts ; ".."  int expCount ; ".."        j = 10..12
//        int [ expCount ] expIds ; ".."  float [ expCount ] expScores ; ".."                                     j = 13..14
//        lstring field16 ; ".."  lstring field17 ; ".." ...                                                      j >= 15
//     )
// Field j (0-based) is declared iff j < 3 + n.
// ---------------------------------------------------------------------------------------------
pub open spec fn gen_sized(j: int) -> bool { j == 5 || j == 10 || j == 11 || j == 13 || j == 14 }
/// where field j starts: 4 lexemes of preamble, 4 per field, 3 more for every sized field before it
pub open spec fn gen_start(j: int) -> int {
    4 + 4 * j + 3 * (b2i(j > 5) + b2i(j > 10) + b2i(j > 11) + b2i(j > 13) + b2i(j > 14))
}
pub open spec fn gen_type(j: int) -> Lit {
    if j == 0 || j == 3 { Lit::W_string }
    else if j == 5 { Lit::W_char }
    else if j == 14 { Lit::W_float }
    else if 9 <= j <= 13 { Lit::W_int }
    else if j >= 15 { Lit::W_lstring }
    else { Lit::W_uint }
}
pub open spec fn gen_group(ts: Seq<Tok>, j: int) -> bool {
    let p = gen_start(j);
    &&& ts[p].word() && ts[p].lit() == gen_type(j)
    &&& if gen_sized(j) {
            &&& ts[p + 1].lit() == Lit::LBracket && ts[p + 2].word() && ts[p + 3].lit() == Lit::RBracket
            &&& ts[p + 4].word() && generator_style_name(ts[p + 4].text()) && ts[p + 5].lit() == Lit::Semi && ts[p + 6].quoted()
        } else {
            ts[p + 1].word() && generator_style_name(ts[p + 1].text()) && ts[p + 2].lit() == Lit::Semi && ts[p + 3].quoted()
        }
}
pub open spec fn gen_stream(ts: Seq<Tok>, n: int) -> bool {
    &&& n >= 0 && ts.len() == gen_start(3 + n) + 1
    &&& ts[0].word() && ts[0].lit() == Lit::W_table
    &&& ts[1].word() && generator_style_name(ts[1].text())
    &&& ts[2].quoted()
    &&& ts[3].lit() == Lit::LParen
    &&& forall|j: int| 0 <= j < 3 + n ==> #[trigger] gen_group(ts, j)
    &&& ts[gen_start(3 + n)].lit() == Lit::RParen
}
/// the parsed field f is the generated field j: its keyword type, its size (sized fields), its name, no index, not auto,
/// its comment
pub open spec fn gen_field_is(f: Field, ts: Seq<Tok>, j: int) -> bool {
    let p = gen_start(j);
    &&& ft_lit(f.field_type) == gen_type(j)
    &&& f.index_type is None && !f.auto
    &&& if gen_sized(j) { f.field_size == Some(ts[p + 2]) && f.name == ts[p + 4] && f.comment == ts[p + 6] }
        else { f.field_size is None && f.name == ts[p + 1] && f.comment == ts[p + 3] }
}
/// the parsed field list of a generated schema: field j is the generated field j
pub open spec fn gen_fields_are(fs: Seq<Field>, ts: Seq<Tok>) -> bool {
    forall|j: int| 0 <= j < fs.len() ==> gen_field_is(#[trigger] fs[j], ts, j)
}

/// group j of a generated stream has the width the generator gives it
proof fn lemma_gen_width(ts: Seq<Tok>, n: int, j: int)
    requires gen_stream(ts, n), 0 <= j < 3 + n,
    ensures
        
        grp_ok(ts, gen_start(j)),
        gen_start(j) + grp_width(ts, gen_start(j)) == gen_start(j + 1),
        gen_start(j + 1) <= gen_start(3 + n),
        sized_at(ts, gen_start(j)) == gen_sized(j),
        g_size(ts, gen_start(j)) == gen_start(j) + 1,
        g_name(ts, gen_start(j)) == gen_start(j) + (if gen_sized(j) { 4int } else { 1int }),
        g_semi(ts, gen_start(j)) == g_name(ts, gen_start(j)) + 1,
{
    reveal(type_w); reveal(idx_w);
    assert(gen_group(ts, j));
    let p = gen_start(j);
    assert(type_w(ts, p) == 1);
    assert(g_size(ts, p) == p + 1);
    assert(sized_at(ts, p) == gen_sized(j));
    let q = g_tail(ts, p);
    assert(ts[q].lit() == Lit::Semi);
    assert(tail_w(ts, q) == 0);
}
/// a parsed field that is the field at gen_start(j) of a generated stream is the generated field j
proof fn lemma_gen_field(ts: Seq<Tok>, n: int, j: int, f: Field)
    requires gen_stream(ts, n), 0 <= j < 3 + n, field_is(f, ts, gen_start(j)),
    ensures
        
        gen_field_is(f, ts, j),
{
    reveal(idx_w);
    lemma_gen_width(ts, n, j);
    assert(gen_group(ts, j));
    let p = gen_start(j);
    assert(!is_idx_word(ts, g_tail(ts, p)));
    assert(!auto_at(ts, tail_auto(ts, g_tail(ts, p))));
}
/// the k-th group of the list behind the `(` of a generated stream starts where the generator puts field k
proof fn lemma_gen_starts(ts: Seq<Tok>, n: int, k: int)
    requires gen_stream(ts, n), 0 <= k <= 3 + n,
    ensures
        
        nth_start(ts, 4, k) == gen_start(k),
    decreases
        
        k,
{
    if k > 0 {
        lemma_gen_starts(ts, n, k - 1);
        lemma_gen_width(ts, n, k - 1);
    }
}
/// from field j on, a generated stream is a well-formed field list with 3 + n - j groups
proof fn lemma_gen_list(ts: Seq<Tok>, n: int, j: int)
    requires gen_stream(ts, n), 0 <= j < 3 + n,
    ensures
        
        list_ok(ts, gen_start(j)),
        count(ts, gen_start(j)) == 3 + n - j,
    decreases
        
        3 + n - j,
{
    lemma_gen_width(ts, n, j);
    if j + 1 < 3 + n {
        lemma_gen_list(ts, n, j + 1);
        assert(gen_group(ts, j + 1));
    }
}
/// C19, generator side of the theorem: a generated stream is ONE well-formed declaration with 3 + n field groups
proof fn lemma_gen(ts: Seq<Tok>, n: int)
    requires gen_stream(ts, n),
    ensures
        
        one_decl(ts),
        
        count(ts, 4) == 3 + n,
        
        forall|k: int| 0 <= k <= 3 + n ==> #[trigger] nth_start(ts, 4, k) == gen_start(k),
        
        d_fields(ts, 0) == 4 && d_comment(ts, 0) == 2 && !is_idx_word(ts, 2) && !auto_at(ts, tail_auto(ts, 2)),
        
        forall|f: Field, j: int| 0 <= j < 3 + n && #[trigger] field_is(f, ts, gen_start(j)) ==> gen_field_is(f, ts, j),
{
    reveal(idx_w);
    assert(tail_w(ts, 2) == 0);
    assert(d_fields(ts, 0) == 4);
    lemma_gen_list(ts, n, 0);
    lemma_gen_starts(ts, n, 3 + n);
    assert forall|k: int| 0 <= k <= 3 + n implies #[trigger] nth_start(ts, 4, k) == gen_start(k) by {
        lemma_gen_starts(ts, n, k);
    }
    assert forall|f: Field, j: int| 0 <= j < 3 + n && #[trigger] field_is(f, ts, gen_start(j)) implies gen_field_is(f, ts, j) by {
        lemma_gen_field(ts, n, j, f);
    }
}

impl DeclareName {
fn parse(parser: &mut VParser) -> (r: Result<Self, ParseError>)
        requires
            
            old(parser).wf(),
        ensures
            
            final(parser).wf(), final(parser).len() == old(parser).len(),
            final(parser).pos() >= old(parser).pos(),
            final(parser).toks() == old(parser).toks(),
            
            r is Ok ==> final(parser).pos() > old(parser).pos(),
            
            r matches Err(ParseError::InvalidDeclareName(t)) ==> !generator_style_name(t.text()),
            
            old(parser).ready() && name_ok(old(parser).toks(), old(parser).at()) ==> r is Ok,
            
            old(parser).ready() && name_ok(old(parser).toks(), old(parser).at()) ==> (r matches Ok(d) ==>
                name_is(d, old(parser).toks(), old(parser).at())),
            
            old(parser).ready() && name_ok(old(parser).toks(), old(parser).at()) ==>
                final(parser).ready() && final(parser).at() == old(parser).at() + name_w(old(parser).toks(), old(parser).at()),
{
            proof { char_class_facts(); reveal(idx_w); }

            let declare_name = parser.eat_word();
            if !chars_first(&declare_name).unwrap_or(' ').is_alphabetic()
                || chars_any(&declare_name, |c: char| -> (b__: bool) ensures b__ == (!c.is_alphanumeric()) { !c.is_alphanumeric() })
            {
                return Err(ParseError::InvalidDeclareName(declare_name.to_string()));
            }
            let declare_name = declare_name.to_string();

            let next_word = parser.peek_word();
            let index_type = match next_word.kind() {
                Lit::W_primary => {
                    parser.eat_word();
                    Some(IndexType::Primary)
                }
                Lit::W_index => {
                    parser.eat_word();

                    let next = parser.peek_one();
                    let size = if next.eq_lit(Lit::LBracket) {
                        parser.eat_one();
                        let size = parser.eat_word().to_string();
                        let close = parser.eat_one();
                        if close.ne_lit(Lit::RBracket) {
                            return Err(ParseError::InvalidIndexSizeBrackets(close.to_string()));
                        }
                        Some(size)
                    } else {
                        None
                    };
                    Some(IndexType::Index(size))
                }
                Lit::W_unique => {
                    parser.eat_word();
                    Some(IndexType::Unique)
                }
                Lit::W_auto => None,
                _ => None,
            };

            let next_word = parser.peek_word();
            let auto = if next_word.eq_lit(Lit::W_auto) {
                parser.eat_word();
                true
            } else {
                false
            };
            Ok(DeclareName {
                name: declare_name,
                index_type,
                auto,
            })
        }
}

impl FieldType {
    /// `FieldType::to_string` of the repository (same impl block, not under contract here), REAL contract at this level of
    /// abstraction: the keyword for the twelve keyword types, otherwise a non-empty text that is no literal of the grammar
    /// (`enum(..)`, `set(..)`, `simple ...`).  Present so that an edit that uses the printed type (e.g. as a field's
    /// name) is judged instead of being refused by the front end.
    #[verifier::external_body]
    pub fn to_string(&self) -> (r: Tok)
        ensures !r.empty(), r.lit() == (if is_simple_type(ft_lit(*self)) { ft_lit(*self) } else { Lit::Other }),
    { unimplemented!() }
fn try_parse(parser: &mut VParser) -> (r: Result<Option<Self>, ParseError>)
        requires
            
            old(parser).wf(),
        ensures
            
            final(parser).wf(), final(parser).len() == old(parser).len(),
            final(parser).pos() >= old(parser).pos(),
            final(parser).toks() == old(parser).toks(),
            
            (r is Ok && r->Ok_0 is Some) ==> final(parser).pos() > old(parser).pos(),
            
            (r is Ok && r->Ok_0 is Some) ==> n_values(r->Ok_0->Some_0) <= final(parser).pos() - old(parser).pos(),
            
            r matches Err(ParseError::InvalidDeclareName(t)) ==> !generator_style_name(t.text()),
            
            old(parser).ready() && type_ok(old(parser).toks(), old(parser).at()) ==> r is Ok && r->Ok_0 is Some,
            
            old(parser).ready() && type_ok(old(parser).toks(), old(parser).at()) ==> (r matches Ok(Some(ft)) ==>
                type_is(ft, old(parser).toks(), old(parser).at())),
            
            old(parser).ready() && type_ok(old(parser).toks(), old(parser).at()) ==>
                final(parser).ready() && final(parser).at() == old(parser).at() + type_w(old(parser).toks(), old(parser).at()),
{
            proof { reveal(type_w); }

            let field_type= parser.peek_word().to_lowercase();
            let field_type = match field_type.kind() {
                Lit::W_int => FieldType::Int,
                Lit::W_uint => FieldType::Uint,
                Lit::W_short => FieldType::Short,
                Lit::W_ushort => FieldType::Ushort,
                Lit::W_byte => FieldType::Byte,
                Lit::W_ubyte => FieldType::Ubyte,
                Lit::W_float => FieldType::Float,
                Lit::W_double => FieldType::Double,
                Lit::W_char => FieldType::Char,
                Lit::W_string => FieldType::String,
                Lit::W_lstring => FieldType::Lstring,
                Lit::W_bigint => FieldType::Bigint,
                Lit::W_enum => {
                    parser.take();
                    let open_bracket = parser.eat_one();
                    if open_bracket.ne_lit(Lit::LParen) {
                        return Err(ParseError::InvalidFieldValuesBrackets(
                            open_bracket.to_string(),
                        ));
                    }
                    let mut values = Vec::<Tok>::new();

                    let ghost p0 = parser.pos();
                    loop 
                        invariant_except_break
                            
                            old(parser).ready() && type_ok(old(parser).toks(), old(parser).at()) && old(parser).head().lit() == Lit::W_enum ==> (
                                parser.ready() && parser.at() == old(parser).at() + 2 + 2 * values@.len()
                                && vals_ok(parser.toks(), parser.at())
                                && values@.len() + vals_n(parser.toks(), parser.at()) == vals_n(old(parser).toks(), old(parser).at() + 2)
                                && (forall|j: int| 0 <= j < values@.len() ==> (#[trigger] values@[j]) == old(parser).toks()[old(parser).at() + 2 + 2 * j])),
                        invariant
                            
                            parser.wf(), parser.len() == old(parser).len(),
                            old(parser).pos() < p0 <= parser.pos(),
                            parser.toks() == old(parser).toks(),
                            
                            old(parser).ready() && type_ok(old(parser).toks(), old(parser).at()) ==> old(parser).head().lit() == Lit::W_enum,
                            
                            values@.len() <= parser.pos() - p0,
                        ensures
                            
                            old(parser).ready() && type_ok(old(parser).toks(), old(parser).at()) && old(parser).head().lit() == Lit::W_enum ==> (
                                parser.ready() && parser.at() == old(parser).at() + 2 + 2 * values@.len()
                                && vals_are(values@, old(parser).toks(), old(parser).at() + 2)),
                        decreases
                            
                            parser.len() - parser.pos(),
{
                        let value = parser.eat_word();
                        if value.eq_lit(Lit::RParen) {
                            break;
                        }
                        values.push(value.to_string());
                        let close = parser.eat_one();
                        if close.eq_lit(Lit::RParen) {
                            break;
                        }
                        if close.is_empty() {
                            return Err(ParseError::InvalidFieldValuesBrackets(close.to_string()));
                        }
                    }
                    return Ok(Some(FieldType::Enum(values)));
                }
                Lit::W_set => {
                    parser.take();
                    let open_bracket = parser.eat_one();
                    if open_bracket.ne_lit(Lit::LParen) {
                        return Err(ParseError::InvalidFieldValuesBrackets(
                            open_bracket.to_string(),
                        ));
                    }
                    let mut values = Vec::<Tok>::new();

                    let ghost p0 = parser.pos();
                    loop 
                        invariant_except_break
                            
                            old(parser).ready() && type_ok(old(parser).toks(), old(parser).at()) && old(parser).head().lit() == Lit::W_set ==> (
                                parser.ready() && parser.at() == old(parser).at() + 2 + 2 * values@.len()
                                && vals_ok(parser.toks(), parser.at())
                                && values@.len() + vals_n(parser.toks(), parser.at()) == vals_n(old(parser).toks(), old(parser).at() + 2)
                                && (forall|j: int| 0 <= j < values@.len() ==> (#[trigger] values@[j]) == old(parser).toks()[old(parser).at() + 2 + 2 * j])),
                        invariant
                            
                            parser.wf(), parser.len() == old(parser).len(),
                            old(parser).pos() < p0 <= parser.pos(),
                            parser.toks() == old(parser).toks(),
                            
                            old(parser).ready() && type_ok(old(parser).toks(), old(parser).at()) ==> old(parser).head().lit() == Lit::W_set,
                            
                            values@.len() <= parser.pos() - p0,
                        ensures
                            
                            old(parser).ready() && type_ok(old(parser).toks(), old(parser).at()) && old(parser).head().lit() == Lit::W_set ==> (
                                parser.ready() && parser.at() == old(parser).at() + 2 + 2 * values@.len()
                                && vals_are(values@, old(parser).toks(), old(parser).at() + 2)),
                        decreases
                            
                            parser.len() - parser.pos(),
{
                        let value = parser.eat_word();
                        if value.eq_lit(Lit::RParen) {
                            break;
                        }
                        values.push(value.to_string());
                        let close = parser.eat_one();
                        if close.eq_lit(Lit::RParen) {
                            break;
                        }
                        if close.is_empty() {
                            return Err(ParseError::InvalidFieldValuesBrackets(close.to_string()));
                        }
                    }
                    return Ok(Some(FieldType::Set(values)));
                }
                Lit::W_simple => {
                    parser.take();
                    let declare_name = DeclareName::parse(parser)?;
                    return Ok(Some(FieldType::Declaration(
                        DeclarationType::Simple,
                        declare_name,
                    )));
                }
                Lit::W_object => {
                    parser.take();
                    let declare_name = DeclareName::parse(parser)?;
                    return Ok(Some(FieldType::Declaration(
                        DeclarationType::Object,
                        declare_name,
                    )));
                }
                Lit::W_table => {
                    parser.take();
                    let declare_name = DeclareName::parse(parser)?;
                    return Ok(Some(FieldType::Declaration(
                        DeclarationType::Object,
                        declare_name,
                    )));
                }
                _ => return Ok(None),
            };
            parser.take();
            return Ok(Some(field_type));
        }
}

fn parse_field_list(parser: &mut VParser) -> (r: Result<Vec<Field>, ParseError>)
    requires
        
        old(parser).wf(),
    ensures
        
        final(parser).wf(), final(parser).len() == old(parser).len(),
        final(parser).pos() >= old(parser).pos(),
        final(parser).toks() == old(parser).toks(),
        
        r is Ok ==> r->Ok_0@.len() <= final(parser).pos() - old(parser).pos(),
        
        r matches Err(ParseError::InvalidDeclareName(t)) ==> !generator_style_name(t.text()),
        
        old(parser).ready() && list_ok(old(parser).toks(), old(parser).at()) ==> r is Ok,
        
        old(parser).ready() && list_ok(old(parser).toks(), old(parser).at()) ==> (r matches Ok(fs) ==>
            fs@.len() == count(old(parser).toks(), old(parser).at())),
        
        old(parser).ready() && list_ok(old(parser).toks(), old(parser).at()) ==> (r matches Ok(fs) ==>
            fields_are(fs@, old(parser).toks(), old(parser).at())),
        
        old(parser).ready() && list_ok(old(parser).toks(), old(parser).at()) ==> (r matches Ok(fs) ==>
            final(parser).more() && final(parser).head().lit() == Lit::RParen
            && final(parser).at() == nth_start(old(parser).toks(), old(parser).at(), fs@.len() as int)),
{
        proof { char_class_facts(); }

        let mut fields = Vec::<Field>::new();
        loop 
            invariant_except_break
                
                old(parser).ready() && list_ok(old(parser).toks(), old(parser).at()) ==> (
                    parser.ready()
                    && parser.at() == nth_start(old(parser).toks(), old(parser).at(), fields@.len() as int)
                    && fields_are(fields@, old(parser).toks(), old(parser).at())),
                
                old(parser).ready() && list_ok(old(parser).toks(), old(parser).at()) ==> (
                    list_ok(parser.toks(), parser.at())
                    && fields@.len() + count(parser.toks(), parser.at()) == count(old(parser).toks(), old(parser).at())),
            invariant
                
                parser.wf(), parser.len() == old(parser).len(),
                parser.pos() >= old(parser).pos(), char_facts(),
                parser.toks() == old(parser).toks(),
                
                fields@.len() <= parser.pos() - old(parser).pos(),
            ensures
                
                old(parser).ready() && list_ok(old(parser).toks(), old(parser).at()) ==> (
                    parser.more() && parser.head().lit() == Lit::RParen
                    && parser.at() == nth_start(old(parser).toks(), old(parser).at(), fields@.len() as int)
                    && fields@.len() == count(old(parser).toks(), old(parser).at())
                    && fields_are(fields@, old(parser).toks(), old(parser).at())),
            decreases
                
                parser.len() - parser.pos(),
{

            let ghost gp = parser.at();
            let ghost gts = parser.toks();
            let ghost gh = old(parser).ready() && list_ok(old(parser).toks(), old(parser).at());
            let field_type = match FieldType::try_parse(parser)? {
                Some(field_type) => field_type,
                None => break,
            };


            
            assert(gh ==> parser.ready() && parser.at() == g_size(gts, gp) && type_is(field_type, gts, gp));
            let next_word = parser.peek_one();

            let (field_size, field_name) = if next_word.eq_lit(Lit::LBracket) {
                parser.eat_one();
                let size = parser.eat_word();
                let close = parser.eat_one();
                if close.ne_lit(Lit::RBracket) {
                    return Err(ParseError::InvalidFieldSizeClose(close.to_string()));
                }
                (Some(size.to_string()), parser.eat_word())
            } else {
                let next_word = parser.eat_word();
                (None, next_word)
            };

            
            assert(gh ==> parser.ready() && parser.at() == g_tail(gts, gp) && field_name == gts[g_name(gts, gp)]
                && (if sized_at(gts, gp) { field_size == Some(gts[g_size(gts, gp) + 1]) } else { field_size is None }));
            let field_name = field_name.to_string();

            let next_word = parser.peek_word();
            let index_type = match next_word.kind() {
                Lit::W_primary => {
                    parser.eat_word();
                    Some(IndexType::Primary)
                }
                Lit::W_index => {
                    parser.eat_word();

                    let next = parser.peek_one();
                    let size = if next.eq_lit(Lit::LBracket) {
                        parser.eat_one();
                        let size = parser.eat_word().to_string();
                        let close = parser.eat_one();
                        if close.ne_lit(Lit::RBracket) {
                            return Err(ParseError::InvalidIndexSizeBrackets(close.to_string()));
                        }
                        Some(size)
                    } else {
                        None
                    };
                    Some(IndexType::Index(size))
                }
                Lit::W_unique => {
                    parser.eat_word();
                    Some(IndexType::Unique)
                }
                Lit::W_auto => None,
                _ => None,
            };

            let next_word = parser.peek_word();

            
            assert(gh ==> parser.ready() && parser.at() == tail_auto(gts, g_tail(gts, gp)) && idx_is(index_type, gts, g_tail(gts, gp))) by {
                reveal(idx_w);
            }
            let auto = if next_word.eq_lit(Lit::W_auto) {
                parser.eat_word();
                true
            } else {
                false
            };


            
            assert(gh ==> parser.ready() && parser.at() == g_semi(gts, gp) && auto == auto_at(gts, tail_auto(gts, g_tail(gts, gp))));
            let ghost p_sep = parser.pos();
            let semicolon = parser.eat_one();
            if semicolon.ne_lit(Lit::Semi) {
                return Err(ParseError::InvalidFieldCommentSeparater(
                    semicolon.to_string(),
                ));
            }


            assert(parser.pos() > p_sep); 
            let comment = parser.eat_quoted_string().to_string();

            
            assert(gh ==> parser.ready() && parser.at() == gp + grp_width(gts, gp)
                && field_is(Field { field_type, field_size, name: field_name, index_type, auto, comment }, gts, gp));
            proof {
                if gh {
                    lemma_list_step(gts, old(parser).at(), fields@, Field { field_type, field_size, name: field_name, index_type, auto, comment }, gp);
                }
            }

            fields.push(Field {
                field_type,
                field_size,
                name: field_name,
                index_type,
                auto,
                comment,
            });

            if parser.peek_one().eq_lit(Lit::RParen) {
                break;
            }
        }
        return Ok(fields);
    }

fn parse_declaration(
        parser: &mut VParser,
    ) -> (r: Result<Option<Declaration>, ParseError>)
    requires
        
        old(parser).wf(),
    ensures
        
        final(parser).wf(), final(parser).len() == old(parser).len(),
        final(parser).pos() >= old(parser).pos(),
        final(parser).toks() == old(parser).toks(),
        
        (r is Ok && r->Ok_0 is Some) ==> final(parser).pos() > old(parser).pos(),
        
        (r is Ok && r->Ok_0 is Some) ==> r->Ok_0->Some_0.fields@.len() <= final(parser).pos() - old(parser).pos(),
        
        (r is Ok && r->Ok_0 is None) ==> final(parser).pos() == final(parser).len(),
        
        old(parser).ready() && decl_ok(old(parser).toks(), old(parser).at()) ==> r is Ok && r->Ok_0 is Some,
        
        old(parser).ready() && decl_ok(old(parser).toks(), old(parser).at()) ==> (r matches Ok(Some(d)) ==>
            decl_is(d, old(parser).toks(), old(parser).at())),
        
        old(parser).ready() && decl_ok(old(parser).toks(), old(parser).at()) ==>
            final(parser).ready() && final(parser).at() == decl_end(old(parser).toks(), old(parser).at()),
        
        old(parser).done() ==> r is Ok && r->Ok_0 is None && final(parser).stays(old(parser)),
{
        let declare_type = parser.eat_word();
        let declaration_type = match declare_type.kind() {
            Lit::W_simple => DeclarationType::Simple,
            Lit::W_object => DeclarationType::Object,
            Lit::W_table => DeclarationType::Table,
            Lit::Empty => return Ok(None),
            _ => return Err(ParseError::InvalidDeclareType(declare_type.to_string())),
        };

        let declare_name = DeclareName::parse(parser)?;

        let comment = parser.eat_quoted_string().to_string();

        let opening_bracket = parser.eat_one();

        if opening_bracket.ne_lit(Lit::LParen) {
            return Err(ParseError::InvalidDeclareBrackets(
                opening_bracket.to_string(),
            ));
        }

        let fields = parse_field_list(parser)?;

        let closing_bracket = parser.eat_one();

        if closing_bracket.ne_lit(Lit::RParen) {
            return Err(ParseError::InvalidDeclareBrackets(
                closing_bracket.to_string(),
            ));
        }

        Ok(Some(Declaration {
            declaration_type,
            name: declare_name,
            comment,
            fields,
        }))
    }

fn parse_declaration_list(
        parser: &mut VParser,
    ) -> (r: Result<Vec<Declaration>, ParseError>)
    requires
        
        old(parser).wf(),
    ensures
        
        final(parser).wf(), final(parser).len() == old(parser).len(),
        final(parser).pos() >= old(parser).pos(),
        final(parser).toks() == old(parser).toks(),
        
        r is Ok ==> r->Ok_0@.len() <= final(parser).pos() - old(parser).pos(),
        
        r is Ok ==> (final(parser).pos() == final(parser).len() || r->Ok_0@.len() == 4),
        
        old(parser).ready() && old(parser).at() == 0 && one_decl(old(parser).toks()) ==> r is Ok,
        
        old(parser).ready() && old(parser).at() == 0 && one_decl(old(parser).toks()) ==> (r matches Ok(v) ==>
            v@.len() == 1 && decl_is(v@[0], old(parser).toks(), 0)),
{
        let mut declarations = Vec::<Declaration>::new();

        let mut i = 0;
        loop 
            invariant_except_break
                
                declarations@.len() == i || parser.pos() == parser.len(),
                
                old(parser).ready() && old(parser).at() == 0 && one_decl(old(parser).toks()) ==> (
                    (i == 0 && declarations@.len() == 0 && parser.ready() && parser.at() == 0)
                    || (i == 1 && declarations@.len() == 1 && decl_is(declarations@[0], old(parser).toks(), 0) && parser.done())),
            invariant
                
                parser.wf(), parser.len() == old(parser).len(),
                parser.pos() >= old(parser).pos(),
                parser.toks() == old(parser).toks(),
                
                0 <= i <= 4,
                
                declarations@.len() <= parser.pos() - old(parser).pos(),
            ensures
                
                parser.pos() == parser.len() || declarations@.len() == 4,
                
                old(parser).ready() && old(parser).at() == 0 && one_decl(old(parser).toks()) ==> (
                    declarations@.len() == 1 && decl_is(declarations@[0], old(parser).toks(), 0)),
            decreases
                
                parser.len() - parser.pos(), 4 - i,
{
            if i > 3 {
                break;
            }
            i += 1;
            let dec = parse_declaration(parser)?;
            match dec {
                Some(d) => declarations.push(d),
                None => break,
            }
        }

        Ok(declarations)
    }

pub fn parse_autosql(data: &str) -> (r: Result<Vec<Declaration>, ParseError>)
    ensures
        
        r is Ok ==> r->Ok_0@.len() <= str_len(data),
        
        one_decl(lex(data)) ==> (r matches Ok(v) && v@.len() == 1 && decl_is(v@[0], lex(data), 0)),
        
        forall|n: int| #[trigger] gen_stream(lex(data), n) ==> (r matches Ok(v) && v@.len() == 1 && v@[0].fields@.len() == 3 + n),
        
        forall|n: int| #[trigger] gen_stream(lex(data), n) ==> (r matches Ok(v) && v@.len() == 1 && gen_fields_are(v@[0].fields@, lex(data))),
{
        proof {
            
            assert forall|n: int| #[trigger] gen_stream(lex(data), n) implies
                one_decl(lex(data)) && count(lex(data), 4) == 3 + n && d_fields(lex(data), 0) == 4
                && (forall|k: int| 0 <= k <= 3 + n ==> #[trigger] nth_start(lex(data), 4, k) == gen_start(k))
                && (forall|f: Field, j: int| 0 <= j < 3 + n && #[trigger] field_is(f, lex(data), gen_start(j)) ==> gen_field_is(f, lex(data), j)) by {
                lemma_gen(lex(data), n);
            }
        }

        let mut parser = VParser::of(data);

        parse_declaration_list(&mut parser)
    }

} // verus!
fn main() {}

