"""Template processor: cuts items out of /repo, rewrites them (rewrite.py),
weaves contract text into them and produces one Verus (or plain Rust) file
plus a line map  generated line -> obligation label / code origin.

Template directives (each on its own line, starting with //@):

  //@unit NAME                      //@serves C01 C02 ...        //@backend verus
  //@extract KIND PATH NAME [ARG]   KIND: fn | method | struct | enum | const | type |
                                          loopbody (ARG = loop ordinal) | closure (ARG = let-name; NAME = enclosing fn)
                                         | macro (a `macro_rules!` definition, cut as text: pin or re-state its body)
                                    for `method`, ARG is a regex matched against the impl header
    //@rule Rn [min=K]              enable rewrite rule; fewer than K hits => anchor lost (exit 2)
    //@presub /regex/ => repl [min=K] [count=N]     substitution before the rules (R11)
    //@sub /regex/ => repl [min=K] [count=N]        substitution after the rules (R11)
    //@as NAME                      label prefix of this extraction (default: the extracted fn's name); use it when
                                    several pieces are cut from one fn or several fns share a name (`next`)
    //@header TEXT                  signature for loopbody/closure (everything before the `{`)
    //@ret NAME                     `-> T` becomes `-> (NAME: T)`
    //@sig                          following lines go between signature and body
    //@loop K [optional]            following lines go between the K-th loop header and its `{`; `optional` (also on
                                    //@loopend and //@at .. before|after optional): when the loop/anchor is gone the
                                    splice is skipped instead of raising anchor-lost, so that the edit is judged by
                                    the remaining obligations (its labels then miss from the baseline: a run that
                                    has no failing obligation is still reported as undecided)
    //@loopend K                    following lines go right before the closing brace of the K-th loop's body
    //@open                         following lines go right after the body's opening brace
    //@close                        following lines go right before the body's closing brace
    //@at /regex/ [nth=K] before|after|replace   following lines go before/after/instead of the matching body line
    //@optional                     the whole block is skipped (instead of anchor-lost) when the item is not found
    //@skipbody                     keep only the signature (+contract); body becomes unimplemented (external_body)
  //@end

`[[L: label]]` markers (anywhere in template text) name the obligation stated on
that line and the following lines up to the next marker or directive.
"""
import hashlib
import os
import re

import shutil
import subprocess

import rewrite
from rustlex import AnchorLost, find_closure, find_fn, find_loops, find_macro, find_type_item, mask, match_close

_LABEL = re.compile(r'\[\[L:\s*([^\]]+?)\s*\]\]')


class TemplateError(Exception):
    pass


def _comment_tolerant(pat):
    """`\\s*` / `\\s+` outside character classes also skip `//` line comments, so that a comment line inserted
    between two statements does not turn a multi-statement substitution into a lost anchor."""
    out, i, depth = [], 0, 0
    while i < len(pat):
        c = pat[i]
        if c == '\\' and i + 1 < len(pat):
            nxt = pat[i + 1]
            if nxt == 's' and depth == 0 and i + 2 < len(pat) and pat[i + 2] in '*+' and not (i + 3 < len(pat) and pat[i + 3] == '?'):
                out.append('(?:\\s|//[^\\n]*\\n)' + pat[i + 2])
                i += 3
                continue
            out.append(pat[i:i + 2])
            i += 2
            continue
        if c == '[':
            depth += 1
        elif c == ']' and depth > 0:
            depth -= 1
        out.append(c)
        i += 1
    return ''.join(out)


def _op_tolerant(pat):
    """For position anchors (`//@at .. before|after`) only: a comparison or additive operator written between blanks in
    the anchor also matches its siblings, so that an edit of that very operator (`==` -> `!=`, `+` -> `-`) is JUDGED by
    the contract spliced there instead of ending as a lost anchor.  An anchor only locates a line; it asserts nothing."""
    pat = re.sub(r'(?<= )(?:==|!=|>=|<=)(?= )', '(?:==|!=|>=|<=|>|<)', pat)
    pat = re.sub(r'(?<= )(?:>|<)(?= )', '(?:==|!=|>=|<=|>|<)', pat)
    pat = re.sub(r'(?<= )(?:\\\+=|-=)(?= )', r'(?:\\+=|-=)', pat)
    pat = re.sub(r'(?<= )(?:\\\+|-)(?= )', r'(?:\\+|-)', pat)
    return pat


def _parse_sub(arg):
    m = re.match(r'/(.*)/\s*=>\s*(.*?)(?:\s+min=(\d+))?(?:\s+count=(\d+))?\s*$', arg)
    if not m:
        raise TemplateError('bad sub: ' + arg)
    rep = m.group(2)
    if rep == '""' or rep == "''":
        rep = ''
    return {'pat': m.group(1), 'rep': rep, 'min': int(m.group(3) or 1), 'count': int(m.group(4) or 0)}



_FMT_CACHE = {}
FMT_NOTES = []   # files that could not be put into canonical layout (reported in the evidence)


def canonical_source(path):
    """The text of a source file of the checked tree in CANONICAL LAYOUT: `rustfmt --edition 2021` with rustfmt's
    default configuration, whatever layout the file has on disk.  Layout (line breaks, indentation, trailing commas)
    is the one thing the extraction deliberately drops: anchors and substitutions are regular expressions over text,
    and a tree that differs from another only in layout must get the same verdict.  rustfmt does not change tokens
    other than optional trailing commas / redundant braces it is documented to normalise; if it is missing or
    refuses the file (e.g. a syntax error in the tree under check), the text is used as it is on disk."""
    raw = open(path).read()
    if os.environ.get('VERIF_NO_FMT') or not path.endswith('.rs'):
        return raw
    key = hashlib.sha256(raw.encode()).hexdigest()
    if key in _FMT_CACHE:
        return _FMT_CACHE[key]
    cdir = os.path.join(os.path.dirname(os.path.dirname(os.path.abspath(__file__))), '.cache', 'fmt')
    cfile = os.path.join(cdir, key + '.rs')
    out = None
    if os.path.exists(cfile):
        try:
            out = open(cfile).read()
        except OSError:
            out = None
    if out is None:
        exe = shutil.which('rustfmt')
        if exe:
            try:
                r = subprocess.run([exe, '--edition', '2021', '--emit', 'stdout', '--config', 'max_width=100'],
                                   input=raw, stdout=subprocess.PIPE, stderr=subprocess.PIPE, text=True, timeout=60,
                                   cwd='/')
                if r.returncode == 0 and r.stdout.strip():
                    out = r.stdout
            except (OSError, subprocess.SubprocessError):
                out = None
        if out is None:
            FMT_NOTES.append(path)
            out = raw
        else:
            try:
                if os.environ.get('VERIF_FMT_NOCACHE'):
                    raise OSError('cache disabled')
                os.makedirs(cdir, exist_ok=True)
                tmp = cfile + '.%d' % os.getpid()
                open(tmp, 'w').write(out)
                os.replace(tmp, cfile)
            except OSError:
                pass
    _FMT_CACHE[key] = out
    return out

class Unit:
    def __init__(self, path, repo):
        self.path = path
        self.repo = repo
        self.name = os.path.basename(os.path.dirname(path))
        self.serves = []
        self.backend = 'verus'
        self.lines = []      # generated text lines
        self.tags = []       # parallel: None | dict
        self.items = []      # evidence: extracted items
        self.labels = []     # all contract labels in order
        self.trusted = []    # lines with external_body / assume_specification / axiom / admit / assume
        self.verus_args = []

    # ---- output helpers -------------------------------------------------
    def _emit(self, text, tag_base, cur_label):
        """emit possibly multi-line text; handles [[L:..]] markers; returns current label."""
        for line in text.split('\n'):
            mk = _LABEL.search(line)
            if mk:
                cur_label = mk.group(1)
                line = _LABEL.sub('', line)
                full = '%s/%s' % (tag_base['fn'], cur_label) if tag_base.get('fn') else cur_label
                if full in self.labels:
                    raise TemplateError('duplicate label ' + full)
                self.labels.append(full)
            tag = dict(tag_base)
            if cur_label:
                tag['label'] = '%s/%s' % (tag_base['fn'], cur_label) if tag_base.get('fn') else cur_label
            self.lines.append(line)
            self.tags.append(tag)
        return cur_label

    # ---- main -------------------------------------------------------------
    def build(self):
        tpl = open(self.path).read().split('\n')
        i = 0
        cur_label = None
        while i < len(tpl):
            line = tpl[i]
            s = line.strip()
            if s.startswith('//@unit'):
                self.name = s.split()[1]
            elif s.startswith('//@serves'):
                self.serves = s.split()[1:]
            elif s.startswith('//@backend'):
                self.backend = s.split()[1]
            elif s.startswith('//@verus-arg'):
                self.verus_args += s.split()[1:]
            elif s.startswith('//@include'):
                inc = os.path.join(os.path.dirname(self.path), s.split()[1])
                try:
                    inc_lines = open(inc).read().rstrip('\n').split('\n')
                except OSError:
                    raise TemplateError('include not found: ' + inc)
                tpl[i + 1:i + 1] = inc_lines
            elif s.startswith('//@extract'):
                j = i + 1
                while j < len(tpl) and tpl[j].strip() != '//@end':
                    j += 1
                if j >= len(tpl):
                    raise TemplateError('missing //@end for ' + s)
                block = tpl[i + 1:j]
                if any(b.strip() == '//@optional' for b in block):
                    # an item that an edit may remove altogether (e.g. a helper introduced by a fix): when it is
                    # gone the block is skipped and the callers are judged without it
                    try:
                        self._extract(s, [b for b in block if b.strip() != '//@optional'])
                    except AnchorLost as e:
                        self.notes = getattr(self, 'notes', []) + ['optional item skipped: %s' % e]
                else:
                    self._extract(s, block)
                cur_label = None
                i = j
            elif s.startswith('//@'):
                raise TemplateError('unknown directive: ' + s)
            else:
                if not s:
                    cur_label = None
                cur_label = self._emit(line, {'kind': 'prelude', 'fn': None}, cur_label)
            i += 1
        for n, l in enumerate(self.lines):
            if re.search(r'external_body|assume_specification|\baxiom\b|\badmit\s*\(|\bassume\s*\(|external_fn_specification|verifier::external', l) and not l.strip().startswith('//'):
                self.trusted.append('%d: %s' % (n + 1, l.strip()))
        return '\n'.join(self.lines) + '\n'

    # ---- extraction ---------------------------------------------------------
    def _extract(self, head, block):
        parts = head.split(None, 4)
        kind, relpath, name = parts[1], parts[2], parts[3]
        arg = parts[4].strip() if len(parts) > 4 else None
        if arg and arg[0] in '"\'' and arg[-1] == arg[0]:
            arg = arg[1:-1]
        src_path = os.path.join(self.repo, relpath)
        try:
            src = canonical_source(src_path)
        except OSError:
            raise AnchorLost('file %s missing' % relpath)
        rules, presubs, subs = [], [], []
        header = ret = as_name = None
        skipbody = False
        splices = []   # dict(kind, arg, lines)
        cur = None
        for bl in block:
            bs = bl.strip()
            if bs.startswith('//@rule'):
                t = bs.split()
                mn = 0
                for x in t[2:]:
                    if x.startswith('min='):
                        mn = int(x[4:])
                rules.append((t[1], mn))
                cur = None
            elif bs.startswith('//@presub'):
                presubs.append(_parse_sub(bs[len('//@presub'):].strip()))
                cur = None
            elif bs.startswith('//@sub'):
                subs.append(_parse_sub(bs[len('//@sub'):].strip()))
                cur = None
            elif bs.startswith('//@header'):
                header = bs[len('//@header'):].strip()
                cur = None
            elif bs.startswith('//@ret'):
                ret = bs.split()[1]
                cur = None
            elif bs.startswith('//@as '):
                as_name = bs.split()[1]
                cur = None
            elif bs.startswith('//@skipbody'):
                skipbody = True
                cur = None
            elif bs.startswith('//@sig'):
                cur = {'kind': 'sig', 'lines': []}
                splices.append(cur)
            elif bs.startswith('//@open'):
                cur = {'kind': 'open', 'lines': []}
                splices.append(cur)
            elif bs.startswith('//@close'):
                cur = {'kind': 'close', 'lines': []}
                splices.append(cur)
            elif bs.startswith('//@loopend'):
                cur = {'kind': 'loopend', 'k': int(bs.split()[1]), 'lines': [], 'optional': 'optional' in bs.split()[2:]}
                splices.append(cur)
            elif bs.startswith('//@loop'):
                cur = {'kind': 'loop', 'k': int(bs.split()[1]), 'lines': [], 'optional': 'optional' in bs.split()[2:]}
                splices.append(cur)
            elif bs.startswith('//@at'):
                m = re.match(r'//@at\s+/(.*)/\s*(?:nth=(\d+)\s+)?(before|after|replace)(\s+optional)?\s*$', bs)
                if not m:
                    raise TemplateError('bad //@at: ' + bs)
                cur = {'kind': 'at', 'pat': m.group(1), 'nth': int(m.group(2) or 1), 'where': m.group(3), 'lines': [], 'optional': bool(m.group(4))}
                splices.append(cur)
            elif bs.startswith('//@'):
                raise TemplateError('unknown directive in extract block: ' + bs)
            else:
                if cur is None:
                    if bs:
                        raise TemplateError('stray text in extract block: ' + bs)
                else:
                    cur['lines'].append(bl)

        m = mask(src)
        fn_like = kind in ('fn', 'method', 'loopbody', 'closure')
        if kind in ('fn', 'method'):
            a, s, ob, cb = find_fn(src, name, within=arg if kind == 'method' else None, masked=m)
            cut = src[s:cb + 1]
            origin_line = src.count('\n', 0, s) + 1
        elif kind == 'loopbody':
            a, s, ob, cb = find_fn(src, name, masked=m)
            body = src[ob:cb + 1]
            loops = find_loops(body)
            k = int(arg)
            if len(loops) < k:
                raise AnchorLost('%s: loop %d of fn %s not found' % (relpath, k, name))
            lp = loops[k - 1]
            cut_body = body[lp['open']:lp['close'] + 1]
            if not header:
                raise TemplateError('loopbody needs //@header')
            cut = header + ' ' + cut_body
            origin_line = src.count('\n', 0, ob + lp['open']) + 1
        elif kind == 'closure':
            a, s, ob, cb = find_fn(src, name, masked=m)
            body = src[ob:cb + 1]
            cl = find_closure(body, arg)
            hdr = header or ('fn %s(%s) %s' % (arg, ' '.join(cl['params'].split()), cl['ret']))
            cut = hdr.strip() + ' ' + body[cl['open']:cl['close'] + 1]
            origin_line = src.count('\n', 0, ob + cl['open']) + 1
        elif kind in ('struct', 'enum', 'const', 'type', 'static'):
            a, s, e = find_type_item(src, kind, name, masked=m)
            cut = src[a:e]
            origin_line = src.count('\n', 0, a) + 1
        elif kind == 'macro':
            # a `macro_rules!` definition: cut as text so that a template can pin its body (exact-text anchor) or
            # re-state it; Verus itself never sees macro definitions of /repo
            a, s, e = find_macro(src, name, masked=m)
            cut = src[a:e]
            origin_line = src.count('\n', 0, a) + 1
        else:
            raise TemplateError('unknown extract kind ' + kind)

        sha = hashlib.sha256(cut.encode()).hexdigest()
        item = {'kind': kind, 'file': relpath, 'name': name + (('#' + arg) if kind in ('loopbody', 'closure') else ''),
                'line': origin_line, 'sha256': sha, 'rules': {}, 'subs': []}
        text = cut

        def apply_subs(text, lst, stage):
            for sb in lst:
                try:
                    text, n = re.subn(_comment_tolerant(sb['pat']), sb['rep'], text, count=sb['count'], flags=re.S | re.M)
                except re.error as ex:
                    raise TemplateError('bad regex %s: %s' % (sb['pat'], ex))
                item['subs'].append({'stage': stage, 'pat': sb['pat'], 'rep': sb['rep'], 'hits': n})
                if n < sb['min']:
                    raise AnchorLost('%s %s: substitution /%s/ expected >=%d hit(s), got %d' % (relpath, name, sb['pat'], sb['min'], n))
            return text

        text = apply_subs(text, presubs, 'pre')
        # real text kept by this extraction (after carving, before rules/subs): used by lib/coverage_map.py
        self.kept_texts = getattr(self, 'kept_texts', []) + [(relpath, text)]
        enabled = dict(rules)
        for rn in rewrite.ORDER:
            if rn in enabled:
                text, hits = rewrite.RULES[rn](text)
                item['rules'][rn] = hits
                # `min=` is enforced only for the structural hand-off rule R2: a property-breaking edit may
                # legitimately remove an occurrence of a syntactic construct (`+=`, an assert, a min/max), and
                # that must reach the verifier as a failing obligation, not stop here as a lost anchor.
                if rn == 'R2' and hits < enabled[rn]:
                    raise AnchorLost('%s %s: rule %s expected >=%d hit(s), got %d' % (relpath, name, rn, enabled[rn], hits))
        for rn in enabled:
            if rn not in rewrite.RULES:
                raise TemplateError('unknown rule ' + rn)
        if kind == 'loopbody':
            item['rules']['R9'] = 1
        if kind == 'closure':
            item['rules']['R10'] = 1
        text = apply_subs(text, subs, 'post')
        self.items.append(item)

        fname = name if kind != 'loopbody' else re.search(r'fn\s+(\w+)', header).group(1)
        if kind == 'closure':
            fname = arg if not header else re.search(r'fn\s+(\w+)', header).group(1)
        if as_name:
            fname = as_name
        tag_base = {'kind': 'code', 'fn': fname, 'file': relpath}

        if not fn_like:
            if splices:
                raise TemplateError('splices on non-fn item ' + name)
            self._emit(text, tag_base, None)
            return

        # ---- weave ------------------------------------------------------------
        mt = mask(text)
        k = mt.index('(')
        k = match_close(mt, k) + 1
        while mt[k] not in '{':
            if mt[k] in '([':
                k = match_close(mt, k)
            k += 1
        ob = k
        cb = match_close(mt, ob)
        sig = text[:ob].rstrip()
        body = text[ob:cb + 1]
        if ret:
            sm = mask(sig)
            # last top-level '->' after the parameter list
            p = sm.index('(')
            pe = match_close(sm, p)
            arrow = sm.find('->', pe)
            if arrow < 0:
                raise AnchorLost('fn %s: no return type to name' % name)
            where = re.search(r'\bwhere\b', sm[arrow:])
            rt_end = arrow + where.start() if where else len(sig)
            rtype = sig[arrow + 2:rt_end].strip()
            sig = sig[:arrow] + '-> (%s: %s)' % (ret, rtype) + (' ' + sig[rt_end:] if where else '')

        # insertion list on body: (offset, order, text_lines, section)
        inserts = []
        bm = mask(body)
        loops = find_loops(body, bm)
        replaced_lines = []
        for sp in splices:
            if sp['kind'] == 'sig':
                continue
            if sp['kind'] == 'open':
                inserts.append((1, sp))
            elif sp['kind'] == 'close':
                inserts.append((len(body) - 1, sp))
            elif sp['kind'] == 'loopend':
                if len(loops) < sp['k'] and sp.get('optional'):
                    continue
                if len(loops) < sp['k']:
                    raise AnchorLost('fn %s: loop %d not found (have %d)' % (name, sp['k'], len(loops)))
                inserts.append((loops[sp['k'] - 1]['close'], sp))
            elif sp['kind'] == 'loop':
                if len(loops) < sp['k'] and sp.get('optional'):
                    continue
                if len(loops) < sp['k']:
                    raise AnchorLost('fn %s: loop %d not found (have %d)' % (name, sp['k'], len(loops)))
                inserts.append((loops[sp['k'] - 1]['open'], sp))
            elif sp['kind'] == 'at':
                # match on body lines (real text, one line)
                offs = 0
                hits = []
                apat = sp['pat'] if sp['where'] == 'replace' else _op_tolerant(sp['pat'])
                for ln in body.split('\n'):
                    if re.search(apat, ln):
                        hits.append((offs, offs + len(ln)))
                    offs += len(ln) + 1
                if len(hits) < sp['nth'] and sp.get('optional'):
                    continue
                if len(hits) < sp['nth']:
                    raise AnchorLost('fn %s: anchor /%s/ nth=%d not found' % (name, sp['pat'], sp['nth']))
                a0, a1 = hits[sp['nth'] - 1]
                if sp['where'] == 'before':
                    inserts.append((a0, sp))
                elif sp['where'] == 'after':
                    inserts.append((a1 + 1, sp))
                else:
                    inserts.append((a0, sp))
                    replaced_lines.append((a0, a1))
        # assemble pieces
        pieces = []  # (text, section or None)
        pos = 0
        inserts.sort(key=lambda t: t[0])
        for off, sp in inserts:
            seg_end = off
            seg = body[pos:seg_end]
            pieces.append((seg, None))
            pos = seg_end
            for (a0, a1) in replaced_lines:
                if a0 == off and sp['kind'] == 'at' and sp['where'] == 'replace':
                    pos = a1  # skip the replaced line (newline kept)
            pieces.append(('\n'.join(sp['lines']), sp))
        pieces.append((body[pos:], None))

        cur_label = None
        if skipbody:
            self._emit('#[verifier::external_body]', tag_base, None)
        self._emit(sig, tag_base, None)
        for sp in splices:
            if sp['kind'] == 'sig':
                self._emit('\n'.join(sp['lines']), {'kind': 'contract', 'fn': fname, 'section': 'sig'}, None)
        if skipbody:
            self._emit('{ unimplemented!() }', tag_base, None)
            return
        # glue pieces: code segments may start/end mid-line; build a flat string with per-char section info
        flat = []
        for seg, sp in pieces:
            if sp is None:
                flat.append((seg, None))
            else:
                sec = sp['kind'] + (str(sp.get('k', '')) if sp['kind'] == 'loop' else '')
                # splice text sits on its own lines
                flat.append(('\n' + seg + '\n', sec))
        # emit line by line, a line's tag is contract if any part of it comes from a splice
        buf, buf_sec = '', None
        for seg, sec in flat:
            for ch_line in re.split(r'(\n)', seg):
                if ch_line == '\n':
                    if buf_sec:
                        cur_label = self._emit(buf, {'kind': 'contract', 'fn': fname, 'section': buf_sec}, cur_label)
                    else:
                        self._emit(buf, tag_base, None)
                        cur_label = None
                    buf, buf_sec = '', None
                else:
                    if ch_line.strip() and sec:
                        buf_sec = sec
                    buf += ch_line
        if buf:
            self._emit(buf, tag_base, None)
