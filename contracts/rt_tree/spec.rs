// ================= specification vocabulary of unit rt_tree =================
// Levels as in unit rt_layout: leaves (DataSections) are level 0, the root is level `levels`.

// ---------------- well-formedness: VERBATIM COPY of contracts/rt_layout/spec.rs (`len_ok`, `wf`, `kids_wf`) ----------------
// The postcondition `tree_is_well_formed_for_the_layout_writer` of get_rtreeindex below is literally the
// precondition `wf(nodes, levels, block_size, true)` of rt_layout's write_rtreeindex.
/// a node holds at most b items, and exactly b unless it is the last node of its level
spec fn len_ok(n: int, b: int, last: bool) -> bool { n <= b && (!last ==> n == b) }
/// uniform depth (DataSections exactly at level 0), 1..=b children per non-leaf node, 0..=b items per leaf,
/// fullness of every node that is not on the right spine (`last` = this node is the last of its level)
spec fn wf(t: RTreeChildren, lvl: int, b: int, last: bool) -> bool
    decreases lvl, 0int
{
    match t {
        RTreeChildren::DataSections(v) => lvl == 0 && len_ok(v@.len() as int, b, last),
        RTreeChildren::Nodes(v) => lvl > 0 && v@.len() >= 1 && len_ok(v@.len() as int, b, last) && kids_wf(v@, lvl - 1, b, last),
    }
}
spec fn kids_wf(s: Seq<RTreeNode>, kl: int, b: int, plast: bool) -> bool
    decreases kl, 1int
{
    kl >= 0 && forall|i: int| 0 <= i < s.len() ==> wf((#[trigger] s[i]).children, kl, b, plast && i == s.len() - 1)
}
// ---------------- end of the copy ----------------

/// the data sections beneath t, left to right (in-order concatenation of the DataSections)
spec fn leaves_of(t: RTreeChildren) -> Seq<Section>
    decreases t
{
    match t {
        RTreeChildren::DataSections(v) => v@,
        RTreeChildren::Nodes(v) => leaves_of_kids(v@, v@.len() as int),
    }
}
/// ... beneath the first n items of a non-leaf node
spec fn leaves_of_kids(s: Seq<RTreeNode>, n: int) -> Seq<Section>
    decreases s, n
{
    if n <= 0 || n > s.len() { Seq::empty() } else { leaves_of_kids(s, n - 1) + leaves_of(s[n - 1].children) }
}
/// rt_spans' `covers` (one level) lifted to the whole tree: EVERY RTreeNode at EVERY depth covers its child list
/// -- the builder's side of rt_search's `span_cover` ("the span recorded for a child pointer covers the span of
/// every item stored in the child node")
spec fn cover_all(t: RTreeChildren) -> bool
    decreases t
{
    match t {
        RTreeChildren::DataSections(_) => true,
        RTreeChildren::Nodes(v) => forall|i: int| 0 <= i < v@.len() ==> covers(#[trigger] v@[i]) && cover_all(v@[i].children),
    }
}
/// every section of s lies inside [lo, hi]
spec fn secs_inside(s: Seq<Section>, lo: (u32, u32), hi: (u32, u32)) -> bool {
    forall|i: int| 0 <= i < s.len() ==> contains(lo, hi, ((#[trigger] s[i]).chrom, s[i].start), (s[i].chrom, s[i].end))
}
/// the literal reading of "spans that contain everything beneath them": the span of EVERY RTreeNode contains EVERY
/// data section in its subtree, however deep (a consequence of cover_all by transitivity: corollary_deep_cover)
spec fn deep_cover(t: RTreeChildren) -> bool
    decreases t
{
    match t {
        RTreeChildren::DataSections(_) => true,
        RTreeChildren::Nodes(v) => forall|i: int| 0 <= i < v@.len() ==>
            secs_inside(leaves_of((#[trigger] v@[i]).children), node_lo(v@[i]), node_hi(v@[i])) && deep_cover(v@[i].children),
    }
}
/// number of non-leaf levels on the leftmost path (uniform depth is part of `wf`)
spec fn height(t: RTreeChildren) -> nat
    decreases t
{
    match t {
        RTreeChildren::DataSections(_) => 0,
        RTreeChildren::Nodes(v) => if v@.len() == 0 { 1 } else { 1 + height(v@[0].children) },
    }
}
/// no node anywhere holds zero items (true of every tree built from at least one section; the empty input gives the
/// single empty leaf, the only tree with an empty node)
spec fn nonempty_all(t: RTreeChildren) -> bool
    decreases t
{
    match t {
        RTreeChildren::DataSections(s) => s@.len() > 0,
        RTreeChildren::Nodes(k) => k@.len() > 0 && forall|i: int| 0 <= i < k@.len() ==> nonempty_all((#[trigger] k@[i]).children),
    }
}
/// (chrom, start) of the first item of a node ((0,0) for an empty one)
spec fn lo_of(t: RTreeChildren) -> (u32, u32) {
    match t {
        RTreeChildren::DataSections(s) => if s@.len() > 0 { (s@[0].chrom, s@[0].start) } else { (0u32, 0u32) },
        RTreeChildren::Nodes(k) => if k@.len() > 0 { node_lo(k@[0]) } else { (0u32, 0u32) },
    }
}

// ---------------- itertools `chunks(b)` ----------------
/// concatenation of the first n groups
spec fn flat<T>(gs: Seq<Seq<T>>, n: int) -> Seq<T>
    decreases n
{
    if n <= 0 { Seq::empty() } else { flat(gs, n - 1) + gs[n - 1] }
}
/// `gs` is what `v.chunks(b)` yields: consecutive groups whose concatenation is the input, none empty, none
/// longer than b, every group but the last exactly b long (for an empty input: no group at all).
/// Stated WITHOUT division: "ceil(n / b) groups" is a consequence (lemma_count), not part of the contract.
#[verifier::opaque]
spec fn chunked<T>(gs: Seq<Seq<T>>, v: Seq<T>, b: int) -> bool {
    &&& flat(gs, gs.len() as int) == v
    &&& forall|g: int| 0 <= g < gs.len() ==> 1 <= (#[trigger] gs[g]).len() <= b
    &&& forall|g: int| 0 <= g < gs.len() - 1 ==> (#[trigger] gs[g]).len() == b
}

// ---------------- one level of the tree under construction ----------------
/// leaves beneath the first n nodes of a level
spec fn cat_leaves(cur: Seq<RTreeChildren>, n: int) -> Seq<Section>
    decreases n
{
    if n <= 0 { Seq::empty() } else { cat_leaves(cur, n - 1) + leaves_of(cur[n - 1]) }
}
/// THE INVARIANT of the level loop: `cur` is the list of all nodes of level `lvl`, left to right.
/// Unconditionally (whatever the order of the input):
///  * every node is `wf` at depth lvl, full unless it is the last of the list; no node beneath is empty;
///  * the leaves beneath them, concatenated, are the input sections: each once, in order.
/// For an input sorted by (chrom, start) also `span_ok`.
#[verifier::opaque]
spec fn level_ok(cur: Seq<RTreeChildren>, lvl: int, b: int, secs: Seq<Section>) -> bool {
    &&& lvl >= 0
    &&& forall|i: int| 0 <= i < cur.len() ==> wf(#[trigger] cur[i], lvl, b, i == cur.len() - 1)
    &&& forall|i: int| 0 <= i < cur.len() ==> nonempty_all(#[trigger] cur[i])
    &&& forall|i: int| 0 <= i < cur.len() ==> height(#[trigger] cur[i]) == lvl
    &&& cat_leaves(cur, cur.len() as int) == secs
    &&& secs_sorted(secs) ==> span_ok(cur)
}
/// the span part of the invariant (needs the sorted input):
///  * every RTreeNode beneath covers its child list;
///  * every node is a chunk sorted by start (`child_ok`: what makes the node constructor's span a covering one);
///  * the nodes of the level are sorted by the start of their first item.
spec fn span_ok(cur: Seq<RTreeChildren>) -> bool {
    &&& forall|i: int| 0 <= i < cur.len() ==> cover_all(#[trigger] cur[i])
    &&& forall|i: int| 0 <= i < cur.len() ==> child_ok(#[trigger] cur[i])
    &&& forall|i: int, j: int| 0 <= i <= j < cur.len() ==> pos_le(lo_of(#[trigger] cur[i]), lo_of(#[trigger] cur[j]))
}
/// what the leaf closure `|chunk| DataSections(chunk.collect())` makes of one group
spec fn leaf_of(t: RTreeChildren, grp: Seq<Section>) -> bool {
    t matches RTreeChildren::DataSections(v) && v@ == grp
}
/// what the node constructor is handed: a non-empty node (`first().unwrap()` / `max().unwrap()` panic on an empty one)
spec fn child_nonempty(c: RTreeChildren) -> bool {
    match c {
        RTreeChildren::DataSections(s) => s@.len() > 0,
        RTreeChildren::Nodes(k) => k@.len() > 0,
    }
}
/// the contract of node_of_child for one member c of a group: keeps the child, both span ends attained beneath,
/// and a COVERING span when the child is sorted by start
spec fn item_of(n: RTreeNode, c: RTreeChildren) -> bool {
    n.children == c && tight(n) && (child_ok(c) ==> covers(n))
}
/// what the node closure `|chunk| Nodes(chunk.map(node_of_child).collect())` makes of one group, GIVEN the contract
/// of node_of_child
spec fn built_from(t: RTreeChildren, grp: Seq<RTreeChildren>) -> bool {
    t matches RTreeChildren::Nodes(v) && v@.len() == grp.len()
        && forall|k: int| 0 <= k < grp.len() ==> item_of(#[trigger] v@[k], grp[k])
}
/// every member of every group may be handed to the node constructor
spec fn groups_nonempty(gs: Seq<Seq<RTreeChildren>>) -> bool {
    forall|g: int, k: int| 0 <= g < gs.len() && 0 <= k < gs[g].len() ==> child_nonempty(#[trigger] gs[g][k])
}
