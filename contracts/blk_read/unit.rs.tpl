//@unit blk_read
//@serves C01 C02 C03 C04 C07 C08 C10 C15 C16 C17
//@backend verus
// From the R-tree's `Block { offset, size }` to the bytes the block DECODERS work on:
//   (1) bbiread::read_block_data, WHOLE: seek, read_exact, inflate iff the header advertises a buffer, truncate;
//   (2) `impl<S: SeekableRead> BBIFileRead for S` :: get_block_data, WHOLE (the uncached reader);
//   (3) the PROLOGUES of the three block decoders (bigwigread::get_block_values, bigbedread::get_block_entries,
//       bbiread::get_zoom_block_values): every statement from the signature to the one that finishes building `bytes`;
//       the decoding that follows is replaced by ONE call of a shim that carries the decoder unit's contract
//       (units bw_dec / bb_dec / zoom_dec verify exactly that text with `bytes` as a parameter).
// Property clause (C01 / C02 / C10, and through them every query property served): "the reader decodes what the
// writer / encoder stored": the bytes a decoder sees are EXACTLY the `block.size` bytes at `block.offset` of the
// file when the header's uncompress_buf_size is 0, else exactly the inflate of those bytes -- same bytes, same
// length (no trailing padding, nothing cut), of the caller's block (no other), under the reader's own header.
use vstd::prelude::*;
verus! {
// 64-bit target: `block.size as usize`, `uncompress_buf_size as usize` lose nothing (listed in NOTES.md)
global size_of usize == 8;

//@extract struct bigtools/src/bbi/bbiread.rs Block
//@rule R8
//@end

/// shim for std::io::Error (opaque)
#[verifier::external_body]
#[derive(Debug)]
pub struct IoError { _p: u8 }
/// shim for byteordered::Endianness (external crate; only copied)
#[derive(Clone, Copy, Debug)]
pub enum Endianness { Big, Little }

// BBIFileInfo and what it is made of: cut from /repo so that the contracts name the real header field.
//@extract enum bigtools/src/bbi.rs BBIFile
//@rule R8
//@end
//@extract struct bigtools/src/bbi.rs ZoomHeader
//@rule R8
//@end
//@extract struct bigtools/src/bbi/bbiread.rs BBIHeader
//@rule R8
//@end
//@extract struct bigtools/src/bbi/bbiread.rs ChromInfo
//@rule R8
//@end
//@extract struct bigtools/src/bbi/bbiread.rs BBIFileInfo
//@rule R8
//@end

// ---------------- the file (any `Read + Seek`) ----------------
// Ghost content (immutable), OS position and an environment flag: whether operations may fail for reasons outside
// the program.  ASSUMED contract of std (the same as in units rt_readnode / summary_io / tree_offsets):
//   `seek(SeekFrom::Start(p))` moves to p (seeking past the end is allowed) and fails only for the environment;
//   `read_exact(buf)` fails iff fewer than buf.len() bytes remain or the environment fails; on success buf holds
//   the next buf.len() bytes and the position has advanced by that much;
//   `read(buf)` is ONE read: any number 0..=min(buf.len(), left) of bytes (short reads are legal).
// Nothing is promised about the position after an Err.
#[verifier::external_body]
pub struct VRead { _p: u8 }
impl VRead {
    pub uninterp spec fn content(&self) -> Seq<u8>;
    pub uninterp spec fn pos(&self) -> nat;
    pub uninterp spec fn env_ok(&self) -> bool;
    #[verifier::external_body]
    pub fn seek_start(&mut self, p: u64) -> (r: Result<u64, IoError>)
        ensures final(self).content() == old(self).content(), final(self).env_ok() == old(self).env_ok(),
            old(self).env_ok() ==> r is Ok,
            r matches Ok(q) ==> q == p && final(self).pos() == p,
    { unimplemented!() }
    /// `seek(SeekFrom::Current(d))` (0 hits on /repo): relative to the position; a negative target is an error
    #[verifier::external_body]
    pub fn seek_current(&mut self, d: i64) -> (r: Result<u64, IoError>)
        ensures final(self).content() == old(self).content(), final(self).env_ok() == old(self).env_ok(),
            old(self).env_ok() && old(self).pos() + d >= 0 ==> r is Ok,
            r matches Ok(q) ==> q == old(self).pos() + d && final(self).pos() == old(self).pos() + d,
    { unimplemented!() }
    /// `seek(SeekFrom::End(d))` (0 hits on /repo): relative to the end of the file
    #[verifier::external_body]
    pub fn seek_end(&mut self, d: i64) -> (r: Result<u64, IoError>)
        ensures final(self).content() == old(self).content(), final(self).env_ok() == old(self).env_ok(),
            old(self).env_ok() && old(self).content().len() + d >= 0 ==> r is Ok,
            r matches Ok(q) ==> q == old(self).content().len() + d && final(self).pos() == old(self).content().len() + d,
    { unimplemented!() }
    #[verifier::external_body]
    pub fn read_exact(&mut self, buf: &mut [u8]) -> (r: Result<(), IoError>)
        ensures final(self).content() == old(self).content(), final(self).env_ok() == old(self).env_ok(),
            final(buf)@.len() == old(buf)@.len(),
            (old(self).env_ok() && old(self).pos() + old(buf)@.len() <= old(self).content().len()) ==> r is Ok,
            old(self).pos() + old(buf)@.len() > old(self).content().len() ==> r is Err,
            r is Ok ==> final(self).pos() == old(self).pos() + old(buf)@.len()
                && final(buf)@ == old(self).content().subrange(old(self).pos() as int, old(self).pos() + old(buf)@.len() as int),
    { unimplemented!() }
    /// `Read::read` (0 hits on /repo; lets an edit that replaces `read_exact` by a single `read` reach the verifier)
    /// with its REAL contract: Ok(n), 0 <= n <= buf.len(), n no more than what is left; the first n bytes of buf are
    /// the next n bytes of the file, the rest of buf is unchanged, the position advances by n; n MAY be smaller than
    /// buf.len() even when more bytes are available (short read); it fails only for reasons of the environment.
    #[verifier::external_body]
    pub fn read(&mut self, buf: &mut [u8]) -> (r: Result<usize, IoError>)
        ensures final(self).content() == old(self).content(), final(self).env_ok() == old(self).env_ok(),
            final(buf)@.len() == old(buf)@.len(),
            old(self).env_ok() ==> r is Ok,
            r matches Ok(n) ==> {
                &&& n <= old(buf)@.len()
                &&& final(self).pos() == old(self).pos() + n
                &&& n == 0 ==> final(buf)@ == old(buf)@
                &&& n > 0 ==> old(self).pos() + n <= old(self).content().len()
                        && final(buf)@ == old(self).content().subrange(old(self).pos() as int, old(self).pos() + n as int)
                            + old(buf)@.subrange(n as int, old(buf)@.len() as int)
            },
    { unimplemented!() }
}

/// ASSUMED fact of std: "Vec never allocates more than isize::MAX bytes", so a `Vec<u8>` holds at most isize::MAX
/// elements (lets `data.len() + 1`, `data.len() * 2` in a changed `with_capacity(..)` pass the overflow check, as
/// they do in Rust: a capacity change is harmless and must stay OK)
mod vec_ax {
use vstd::prelude::*;
pub broadcast axiom fn ax_vec_u8_len(v: Vec<u8>)
    ensures #[trigger] v@.len() <= isize::MAX;
}
broadcast use vec_ax::ax_vec_u8_len;

/// `Result::unwrap_or_default` (0 hits on /repo; lets an edit that swallows an error reach the verifier): the Ok value;
/// nothing is said about the default (weakest true contract, as in unit cache)
pub assume_specification<T: Default, E>[Result::<T, E>::unwrap_or_default](x: Result<T, E>) -> (v: T)
    ensures x matches Ok(y) ==> v == y;

/// `Result::unwrap_or` (0 hits on /repo): the Ok value, else the given default
pub assume_specification<T, E>[Result::<T, E>::unwrap_or](x: Result<T, E>, d: T) -> (v: T)
    ensures x matches Ok(y) ==> v == y, x is Err ==> v == d;

/// `vec![0u8; n]` / `vec![0; n]`: n zero bytes (VERIFIED replacement of the macro)
pub fn zeros(n: usize) -> (r: Vec<u8>)
    ensures r@.len() == n, forall|i: int| 0 <= i < n ==> r@[i] == 0u8,
{
    let mut v: Vec<u8> = Vec::new();
    let mut i: usize = 0;
    while i < n
        invariant i <= n, v@.len() == i, forall|j: int| 0 <= j < i ==> v@[j] == 0u8,
        decreases n - i,
    {
        v.push(0u8);
        i = i + 1;
    }
    v
}

// ---------------- libdeflater (C library) ----------------
// ASSUMED contract = zlib inverse, the same vocabulary as the writer units (bw_enc / bb_enc / zoom_enc:
// `deflate_vec(b) ensures inflate(r@) == b@`, "libdeflater (C library): assumed contract = zlib inverse"):
//   `inflate(z)`      what a conforming zlib decoder yields for the stream z (a function of z alone);
//   `zlib_stream(z)`  z is a complete, well-formed zlib stream (what `deflate` emits always is one).
// `Decompressor::zlib_decompress(in, out)`: Ok(n) with n == |inflate(in)| and out[..n] == inflate(in) when `in` is a
// stream and out.len() >= |inflate(in)|; Err(InsufficientSpace) when it is a stream that does not fit;
// Err(BadData) when it is no stream.  out never changes length; nothing is said about out[n..].
pub uninterp spec fn inflate(z: Seq<u8>) -> Seq<u8>;
pub uninterp spec fn zlib_stream(z: Seq<u8>) -> bool;
#[derive(Debug)]
pub enum DecompressionError { BadData, InsufficientSpace }
#[verifier::external_body]
pub struct Decompressor { _p: u8 }
impl Decompressor {
    #[verifier::external_body]
    pub fn new() -> (r: Decompressor) { unimplemented!() }
    #[verifier::external_body]
    pub fn zlib_decompress(&mut self, in_raw_data: &[u8], out_data: &mut [u8]) -> (r: Result<usize, DecompressionError>)
        ensures
            final(out_data)@.len() == old(out_data)@.len(),
            zlib_stream(in_raw_data@) && inflate(in_raw_data@).len() <= old(out_data)@.len() ==>
                (r matches Ok(n) && n == inflate(in_raw_data@).len() && final(out_data)@.subrange(0, n as int) == inflate(in_raw_data@)),
            zlib_stream(in_raw_data@) && inflate(in_raw_data@).len() > old(out_data)@.len() ==> r matches Err(DecompressionError::InsufficientSpace),
            !zlib_stream(in_raw_data@) ==> r matches Err(DecompressionError::BadData),
    { unimplemented!() }
}

// ---------------- vocabulary (from the property, shares no code with the reader) ----------------
/// the block lies completely inside the file
pub open spec fn block_in_file(c: Seq<u8>, b: Block) -> bool { b.offset + b.size <= c.len() }
/// the `size` bytes stored at `offset`
pub open spec fn raw_block(c: Seq<u8>, b: Block) -> Seq<u8> { c.subrange(b.offset as int, b.offset + b.size) }
/// what the decoder must be given for block b of a file whose header advertises `ubs` (0 = blocks stored raw):
/// what the encoder produced before the (optional) deflate -- units bw_enc / bb_enc / zoom_enc:
/// `!compress ==> data@ == fmt(..)`, `compress ==> inflate(data@) == fmt(..)`.
pub open spec fn block_data(c: Seq<u8>, ubs: u32, b: Block) -> Seq<u8> {
    if ubs == 0 { raw_block(c, b) } else { inflate(raw_block(c, b)) }
}
/// NAMED PRECONDITION of every read of a compressed block: the stored bytes are a zlib stream whose inflated size
/// does not exceed the header's uncompress_buf_size.  The WRITER establishes it (chrom_pipe
/// `advertised_buffer_is_the_maximum_over_all_data_and_zoom_write_results`, `nz/advertised_buffer_is_the_maximum_over_all_write_results`;
/// zoom_tail `tail/advertised_buffer_is_the_maximum_over_all_levels_including_the_first`; hdr writes that number);
/// for a FOREIGN file nobody does: the reader then panics in `.unwrap()` (C10 observation, NOTES.md).
pub open spec fn advertised_buffer_covers(c: Seq<u8>, ubs: u32, b: Block) -> bool {
    ubs > 0 && block_in_file(c, b) ==> zlib_stream(raw_block(c, b)) && inflate(raw_block(c, b)).len() <= ubs
}

// =====================================================================================
// (1) read_block_data, whole
//@extract fn bigtools/src/bbi/bbiread.rs read_block_data
//@rule R5
//@rule R6
//@rule R15
//@rule R16
//@sub /fn read_block_data<R: SeekableRead>/ => fn read_block_data min=1
//@sub /read: &mut R\b/ => read: &mut VRead min=1
//@sub /io::Result<Vec<u8>>/ => Result<Vec<u8>, IoError> min=1
//@sub /\.seek\(\s*SeekFrom::Start\(((?:[^()]|\([^()]*\))*)\)\s*\)/ => .seek_start(\1) min=0
//@sub /\.seek\(\s*SeekFrom::Current\(((?:[^()]|\([^()]*\))*)\)\s*\)/ => .seek_current(\1) min=0
//@sub /\.seek\(\s*SeekFrom::End\(((?:[^()]|\([^()]*\))*)\)\s*\)/ => .seek_end(\1) min=0
//@sub /vec!\[\s*0(?:u8)?\s*;\s*([^\[\]]*?)\s*\]/ => zeros(\1) min=0
//@ret r
//@sig
    requires
        [[L: pre_advertised_buffer_covers_the_block]]
        advertised_buffer_covers(old(read).content(), info.header.uncompress_buf_size, *block),
    ensures
        [[L: file_unchanged]]
        final(read).content() == old(read).content() && final(read).env_ok() == old(read).env_ok(),
        [[L: raw_file_gives_exactly_the_stored_bytes]]
        r matches Ok(d) ==> (info.header.uncompress_buf_size == 0 ==> d@ == raw_block(old(read).content(), *block)),
        [[L: compressed_file_gives_exactly_the_inflated_bytes_no_padding]]
        r matches Ok(d) ==> (info.header.uncompress_buf_size != 0 ==> d@ == inflate(raw_block(old(read).content(), *block))),
        [[L: result_is_the_block_data]]
        r matches Ok(d) ==> d@ == block_data(old(read).content(), info.header.uncompress_buf_size, *block),
        [[L: ok_only_when_the_block_lies_inside_the_file]]
        r is Ok ==> block_in_file(old(read).content(), *block),
        [[L: short_file_is_an_error]]
        !block_in_file(old(read).content(), *block) ==> r is Err,
        [[L: nothing_else_fails]]
        old(read).env_ok() && block_in_file(old(read).content(), *block) ==> r is Ok,
        [[L: reader_ends_right_after_the_block]]
        r is Ok ==> final(read).pos() == block.offset + block.size,
    decreases
        [[L: termination]]
        0int,
//@at /let decompressed\b/ before optional
        assert(outbuf@.len() == info.header.uncompress_buf_size); [[L: inflate_buffer_is_exactly_the_advertised_size]]
        assert(zlib_stream(raw_data@) && inflate(raw_data@).len() <= outbuf@.len()); [[L: unwrap_cannot_panic_block_fits_the_buffer]]
//@end

// =====================================================================================
// (2) the uncached reader: `impl<S: SeekableRead> BBIFileRead for S` :: get_block_data
/// `trait BBIFileRead`, the one method the decoders use, with the contract every implementation has to meet:
/// the plain reader below (proved here, S = VRead) and the caching reader (unit cache:
/// `get_block_data/result_is_the_blocks_data_hit_or_miss`, `file_unchanged`; its `block_bytes` IS `block_data` by (1)).
pub trait BBIFileRead {
    /// content of the (immutable) file under this reader
    spec fn file(&self) -> Seq<u8>;
    /// the environment lets reads succeed
    spec fn env(&self) -> bool;
    fn get_block_data(&mut self, info: &BBIFileInfo, block: &Block) -> (r: Result<Vec<u8>, IoError>)
        requires
            advertised_buffer_covers(old(self).file(), info.header.uncompress_buf_size, *block),
        ensures
            [[L: trait_get_block_data/file_unchanged]]
            final(self).file() == old(self).file() && final(self).env() == old(self).env(),
            [[L: trait_get_block_data/result_is_the_block_data]]
            r matches Ok(d) ==> d@ == block_data(old(self).file(), info.header.uncompress_buf_size, *block),
            [[L: trait_get_block_data/readable_block_is_read]]
            old(self).env() && block_in_file(old(self).file(), *block) ==> r is Ok,
    ;
}
impl BBIFileRead for VRead {
    open spec fn file(&self) -> Seq<u8> { self.content() }
    open spec fn env(&self) -> bool { self.env_ok() }
//@extract method bigtools/src/bbi/bbiread.rs get_block_data "BBIFileRead for S\b"
//@as plain_get_block_data
//@rule R15
//@rule R16
//@sub /io::Result<Vec<u8>>/ => Result<Vec<u8>, IoError> min=1
//@ret r
//@sig
        ensures
            [[L: is_read_block_data_of_this_reader_this_info_this_block/raw]]
            r matches Ok(d) ==> (info.header.uncompress_buf_size == 0 ==> d@ == raw_block(old(self).content(), *block)),
            [[L: is_read_block_data_of_this_reader_this_info_this_block/inflated]]
            r matches Ok(d) ==> (info.header.uncompress_buf_size != 0 ==> d@ == inflate(raw_block(old(self).content(), *block))),
            [[L: is_read_block_data_of_this_reader_this_info_this_block/errors]]
            (r is Ok ==> block_in_file(old(self).content(), *block))
                && (old(self).env_ok() && block_in_file(old(self).content(), *block) ==> r is Ok),
            [[L: is_read_block_data_of_this_reader_this_info_this_block/position]]
            r is Ok ==> final(self).pos() == block.offset + block.size,
//@end
}

// =====================================================================================
// (3) the prologues of the three block decoders
//@extract struct bigtools/src/bbi.rs Value
//@rule R8
//@end
// thiserror attributes dropped; io::Error -> opaque IoError; String payloads -> Vec<u8> (never built here)
//@extract enum bigtools/src/bbi/bbiread.rs BBIReadError
//@rule R8
//@sub /[ \t]*#\[error\([^\n]*\)\]\n/ => "" min=0
//@sub /#\[from\] io::Error/ => IoError min=1
//@sub /#\[from\] BedValueError/ => BedValueError min=1
//@sub /String/ => Vec<u8> min=0
//@end
/// bed::bedparser::BedValueError (opaque; never constructed here)
#[verifier::external_body]
#[derive(Debug)]
pub struct BedValueError { _p: u8 }
// the `From<io::Error>` impl that thiserror's `#[from]` derives, written out: wraps
impl vstd::std_specs::convert::FromSpecImpl<IoError> for BBIReadError {
    open spec fn obeys_from_spec() -> bool { true }
    open spec fn from_spec(e: IoError) -> BBIReadError { BBIReadError::IoError(e) }
}
impl From<IoError> for BBIReadError {
    fn from(e: IoError) -> (r: BBIReadError) { BBIReadError::IoError(e) }
}

/// shim for bytes::BytesMut as the prologues use it: `view` = the bytes it holds.  ASSUMED contract of the
/// `bytes` crate: a fresh buffer is empty whatever its capacity; `extend_from_slice` appends the slice.
#[verifier::external_body]
pub struct BytesMut { _p: u8 }
impl BytesMut {
    pub uninterp spec fn view(&self) -> Seq<u8>;
    #[verifier::external_body]
    pub fn with_capacity(n: usize) -> (r: BytesMut) ensures r@.len() == 0, { unimplemented!() }
    #[verifier::external_body]
    pub fn new() -> (r: BytesMut) ensures r@.len() == 0, { unimplemented!() }
    /// `BytesMut::zeroed(n)`: n zero bytes
    #[verifier::external_body]
    pub fn zeroed(n: usize) -> (r: BytesMut) ensures r@.len() == n, forall|i: int| 0 <= i < n ==> r@[i] == 0u8, { unimplemented!() }
    #[verifier::external_body]
    pub fn extend_from_slice(&mut self, s: &[u8]) ensures final(self)@ == old(self)@ + s@, { unimplemented!() }
    #[verifier::external_body]
    pub fn len(&self) -> (r: usize) ensures r == self@.len(), { unimplemented!() }
    /// `truncate(n)`: keeps the first n bytes (no effect when n >= len)
    #[verifier::external_body]
    pub fn truncate(&mut self, n: usize)
        ensures final(self)@ == (if n < old(self)@.len() { old(self)@.subrange(0, n as int) } else { old(self)@ }),
    { unimplemented!() }
    /// `clear()`: empties the buffer
    #[verifier::external_body]
    pub fn clear(&mut self) ensures final(self)@.len() == 0, { unimplemented!() }
}

//@extract struct bigtools/src/bbi/bigwigread.rs BigWigRead
//@rule R8
//@end
//@extract struct bigtools/src/bbi/bigbedread.rs BigBedRead
//@rule R8
//@end

// ---- bigWig ----
/// "the decoder ran on `data` and answered (r, k1)": WHATEVER unit bw_dec guarantees of the text that follows the
/// prologue (bw_dec/get_block_values/other_chromosome_gives_none, unknown_section_type_is_error,
/// exactly_overlapping_clipped_in_order, known_offset_is_block_end_on_success, known_offset_untouched_otherwise; its
/// parameters `endianness`, `data` are exactly the two things the prologue supplies).  Uninterpreted: nothing is
/// assumed about it (no determinism): a run on other bytes, another byte order or another block cannot establish it.
pub uninterp spec fn bw_decoded(data: Seq<u8>, endianness: Endianness, block: Block, k0: u64, chrom: u32, start: u32, end: u32,
    r: Result<Option<Vec<Value>>, BBIReadError>, k1: u64) -> bool;
/// WHATEVER unit bw_dec requires of the block bytes (bw_dec/get_block_values/pre_header_present,
/// pre_well_formed_items, pre_known_offset_no_overflow).  Uninterpreted: handed up to the caller as it is.
pub uninterp spec fn bw_dec_pre(data: Seq<u8>, endianness: Endianness, block: Block, chrom: u32) -> bool;
/// stands for everything of `get_block_values` after `bytes` is built = the text unit bw_dec verifies
/// (bw_dec replaces `bigwig.info.header.endianness` by its parameter `endianness`, and the prologue by `data`)
#[verifier::external_body]
pub fn bw_decode_rest(bytes: BytesMut, endianness: Endianness, block: Block, known_offset: &mut u64, chrom: u32, start: u32, end: u32)
    -> (r: Result<Option<Vec<Value>>, BBIReadError>)
    requires bw_dec_pre(bytes@, endianness, block, chrom),
    ensures bw_decoded(bytes@, endianness, block, *old(known_offset), chrom, start, end, r, *final(known_offset)),
{ unimplemented!() }

//@extract fn bigtools/src/bbi/bigwigread.rs get_block_values
//@as bw
//@presub /\n[ \t]*let mut bytes_header\b.*\n\}\s*\Z/ => \n    bw_decode_rest(bytes, bigwig.info.header.endianness, block, known_offset, chrom, start, end)\n} min=1
//@rule R5
//@rule R6
//@rule R15
//@rule R16
//@sub /Option<std::vec::IntoIter<Value>>/ => Option<Vec<Value>> min=1
//@ret r
//@sig
    requires
        [[L: pre_advertised_buffer_covers_the_block]]
        advertised_buffer_covers(old(bigwig).read.file(), old(bigwig).info.header.uncompress_buf_size, block),
        [[L: pre_decoder_preconditions_hold_of_the_block_data]]
        bw_dec_pre(block_data(old(bigwig).read.file(), old(bigwig).info.header.uncompress_buf_size, block),
            old(bigwig).info.header.endianness, block, chrom),
    ensures
        [[L: reader_and_header_untouched]]
        final(bigwig).info == old(bigwig).info && final(bigwig).read.file() == old(bigwig).read.file()
            && final(bigwig).read.env() == old(bigwig).read.env(),
        [[L: fetch_error_at_once_or_decoder_on_exactly_the_data_of_the_callers_block_under_the_readers_own_header]]
        (r is Err && *final(known_offset) == *old(known_offset))
            || bw_decoded(block_data(old(bigwig).read.file(), old(bigwig).info.header.uncompress_buf_size, block),
                    old(bigwig).info.header.endianness, block, *old(known_offset), chrom, start, end, r, *final(known_offset)),
        [[L: readable_block_is_decoded]]
        old(bigwig).read.env() && block_in_file(old(bigwig).read.file(), block) ==>
            bw_decoded(block_data(old(bigwig).read.file(), old(bigwig).info.header.uncompress_buf_size, block),
                    old(bigwig).info.header.endianness, block, *old(known_offset), chrom, start, end, r, *final(known_offset)),
    decreases
        [[L: termination]]
        0int,
//@at /bw_decode_rest\(/ before
    assert(bytes@ == block_data(old(bigwig).read.file(), old(bigwig).info.header.uncompress_buf_size, block)); [[L: bytes_are_exactly_the_block_data_same_bytes_same_length]]
//@end

// ---- bigBed ----
// R11: `rest: String` -> `rest: Vec<u8>` (as units bb_dec / bb_enc; the text is never inspected here)
//@extract struct bigtools/src/bbi.rs BedEntry
//@rule R8
//@sub /pub rest: String,/ => pub rest: Vec<u8>, min=1
//@end
/// "the decoder ran on `data` and answered (r, k1)": WHATEVER unit bb_dec guarantees of the text that follows the
/// prologue (bb_dec/get_block_entries/well_formed_block_is_read, exactly_touching_entries_in_order,
/// no_overlapping_entry_missed, nothing_wholly_outside, known_offset_is_block_end; read_entry/record_decoded ...).
/// Uninterpreted, nothing assumed about it.
pub uninterp spec fn bb_decoded(data: Seq<u8>, endianness: Endianness, block: Block, k0: u64, expected_chrom: u32, start: u32, end: u32,
    r: Result<Vec<BedEntry>, BBIReadError>, k1: u64) -> bool;
/// WHATEVER unit bb_dec requires of the block bytes (bb_dec/get_block_entries/pre_block_is_published_layout,
/// pre_decodable, pre_known_offset_no_overflow; read_entry/pre_single_chromosome_per_block).  Uninterpreted.
pub uninterp spec fn bb_dec_pre(data: Seq<u8>, endianness: Endianness, block: Block, expected_chrom: u32) -> bool;
/// stands for everything of `get_block_entries` after `bytes` is built = the text unit bb_dec verifies
/// (bb_dec replaces `bigbed.info.header.endianness` by its parameter `endianness`, and the prologue by `data`)
#[verifier::external_body]
pub fn bb_decode_rest(bytes: BytesMut, endianness: Endianness, block: Block, known_offset: &mut u64, expected_chrom: u32, start: u32, end: u32)
    -> (r: Result<Vec<BedEntry>, BBIReadError>)
    requires bb_dec_pre(bytes@, endianness, block, expected_chrom),
    ensures bb_decoded(bytes@, endianness, block, *old(known_offset), expected_chrom, start, end, r, *final(known_offset)),
{ unimplemented!() }

//@extract fn bigtools/src/bbi/bigbedread.rs get_block_entries
//@as bb
//@presub /\n[ \t]*let mut entries\b.*\n\}\s*\Z/ => \n    bb_decode_rest(bytes, bigbed.info.header.endianness, block, known_offset, expected_chrom, start, end)\n} min=1
//@rule R5
//@rule R6
//@rule R15
//@rule R16
//@sub /Result<std::vec::IntoIter<BedEntry>, BBIReadError>/ => Result<Vec<BedEntry>, BBIReadError> min=1
//@ret r
//@sig
    requires
        [[L: pre_advertised_buffer_covers_the_block]]
        advertised_buffer_covers(old(bigbed).read.file(), old(bigbed).info.header.uncompress_buf_size, block),
        [[L: pre_decoder_preconditions_hold_of_the_block_data]]
        bb_dec_pre(block_data(old(bigbed).read.file(), old(bigbed).info.header.uncompress_buf_size, block),
            old(bigbed).info.header.endianness, block, expected_chrom),
    ensures
        [[L: reader_and_header_untouched]]
        final(bigbed).info == old(bigbed).info && final(bigbed).read.file() == old(bigbed).read.file()
            && final(bigbed).read.env() == old(bigbed).read.env(),
        [[L: fetch_error_at_once_or_decoder_on_exactly_the_data_of_the_callers_block_under_the_readers_own_header]]
        (r is Err && *final(known_offset) == *old(known_offset))
            || bb_decoded(block_data(old(bigbed).read.file(), old(bigbed).info.header.uncompress_buf_size, block),
                    old(bigbed).info.header.endianness, block, *old(known_offset), expected_chrom, start, end, r, *final(known_offset)),
        [[L: readable_block_is_decoded]]
        old(bigbed).read.env() && block_in_file(old(bigbed).read.file(), block) ==>
            bb_decoded(block_data(old(bigbed).read.file(), old(bigbed).info.header.uncompress_buf_size, block),
                    old(bigbed).info.header.endianness, block, *old(known_offset), expected_chrom, start, end, r, *final(known_offset)),
    decreases
        [[L: termination]]
        0int,
//@at /bb_decode_rest\(/ before
    assert(bytes@ == block_data(old(bigbed).read.file(), old(bigbed).info.header.uncompress_buf_size, block)); [[L: bytes_are_exactly_the_block_data_same_bytes_same_length]]
//@end

// ---- zoom (both file types) ----
//@extract struct bigtools/src/bbi.rs Summary
//@rule R8
//@end
//@extract struct bigtools/src/bbi.rs ZoomRecord
//@rule R8
//@end
/// `trait BBIRead: BBIReadInternal` as `get_zoom_block_values` uses it (the two traits flattened into one):
/// `reader_and_info()` lends the reader's own reader and info, `info()` the reader's own info.  ASSUMED here, PROVED of
/// all three implementations in unit rd_plumb: bw_reader_and_info / bb_reader_and_info / generic_reader_and_info
/// `lends_the_readers_own_reader_and_info`, `*_info/...`.
pub trait BBIRead {
    type Read: BBIFileRead;
    spec fn rd(&self) -> Self::Read;
    spec fn inf(&self) -> BBIFileInfo;
    fn reader_and_info(&mut self) -> (r: (&mut Self::Read, &mut BBIFileInfo))
        ensures *r.0 == old(self).rd() && *final(r.0) == final(self).rd() && *r.1 == old(self).inf() && *final(r.1) == final(self).inf(),
    ;
    fn info(&self) -> (r: &BBIFileInfo)
        ensures *r == self.inf(),
    ;
}
/// "the record loop ran on `data` in byte order `endianness` and produced `records`": WHATEVER unit zoom_dec guarantees
/// (zoom_dec/get_zoom_block_values/result_is_filtered_decode_in_stored_order, every_intersecting_record_returned,
/// only_stored_records_of_that_chromosome, total_items_zero, no_more_than_stored).  Uninterpreted.
pub uninterp spec fn zoom_decoded(data: Seq<u8>, endianness: Endianness, chrom: u32, start: u32, end: u32, records: Seq<ZoomRecord>) -> bool;
/// stands for `let len = bytes.len(); assert_eq!(len % 32, 0); .. match endianness { .. }` = the text unit zoom_dec
/// verifies; `requires` = zoom_dec's `pre_whole_records` (the code's own `assert_eq!`)
#[verifier::external_body]
pub fn zoom_decode_rest(bytes: BytesMut, endianness: Endianness, chrom: u32, start: u32, end: u32) -> (records: Vec<ZoomRecord>)
    requires bytes@.len() % 32 == 0,
    ensures zoom_decoded(bytes@, endianness, chrom, start, end, records@),
{ unimplemented!() }

// The carve of zoom_dec drops the prologue, `let endianness = bbifile.info().header.endianness;` and
// `*known_offset = block.offset + block.size;`: all three stay here.  The presub re-emits the `let endianness` statement
// (its own text, \1) BEFORE the one call that stands for the record loop -- it sits between `let mut records = ..` and
// the `match` in /repo; `info()` is a pure accessor, so the move changes nothing.
//@extract fn bigtools/src/bbi/bbiread.rs get_zoom_block_values
//@as zoom
//@presub /\n[ \t]*let len = bytes\.len\(\);.*?\n([ \t]*let endianness\b[^\n;]*;)\s*match endianness \{.*?\}(?=\s*(?:[^\n{}]*;\s*)?Ok\(\s*records\b)/ => \n\1\n    let records = zoom_decode_rest(bytes, endianness, chrom, start, end); min=1
//@rule R5
//@rule R6
//@rule R8
//@rule R15
//@rule R16
//@sub /Result<std::vec::IntoIter<ZoomRecord>, BBIReadError>/ => Result<Vec<ZoomRecord>, BBIReadError> min=1
//@sub /Ok\(records\.into_iter\(\)\)/ => Ok(records) min=1
//@ret r
//@sig
    requires
        [[L: pre_advertised_buffer_covers_the_block]]
        advertised_buffer_covers(old(bbifile).rd().file(), old(bbifile).inf().header.uncompress_buf_size, block),
        [[L: pre_zoom_block_is_whole_records]]
        block_data(old(bbifile).rd().file(), old(bbifile).inf().header.uncompress_buf_size, block).len() % 32 == 0,
        [[L: pre_known_offset_no_overflow]]
        block.offset + block.size <= u64::MAX,
    ensures
        [[L: reader_and_header_untouched]]
        final(bbifile).inf() == old(bbifile).inf() && final(bbifile).rd().file() == old(bbifile).rd().file()
            && final(bbifile).rd().env() == old(bbifile).rd().env(),
        [[L: fetch_error_at_once_known_offset_untouched]]
        r is Err ==> *final(known_offset) == *old(known_offset),
        [[L: decoder_on_exactly_the_data_of_the_callers_block_in_the_readers_own_byte_order]]
        r matches Ok(v) ==> zoom_decoded(block_data(old(bbifile).rd().file(), old(bbifile).inf().header.uncompress_buf_size, block),
            old(bbifile).inf().header.endianness, chrom, start, end, v@),
        [[L: known_offset_is_block_end_on_success]]
        r is Ok ==> *final(known_offset) == block.offset + block.size,
        [[L: readable_block_is_decoded]]
        old(bbifile).rd().env() && block_in_file(old(bbifile).rd().file(), block) ==> r is Ok,
    decreases
        [[L: termination]]
        0int,
//@at /zoom_decode_rest\(/ before
    assert(bytes@ == block_data(old(bbifile).rd().file(), old(bbifile).inf().header.uncompress_buf_size, block)); [[L: bytes_are_exactly_the_block_data_same_bytes_same_length]]
    assert(endianness == old(bbifile).inf().header.endianness); [[L: byte_order_is_the_readers_own]]
//@end

} // verus!
fn main() {}
